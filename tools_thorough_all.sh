cd /verif
for p in C18 C16 C03 C09 C19 C07 C14 C13 C04 C17 C08 C10 C15 C06 C12 C11 C01 C05 C02; do echo "=== $p $(date -u +%H:%M:%S)"; ./vcheck $p --tier thorough 2>&1 | grep -E "^(C[0-9]+ |VIOLATION|INCONCLUSIVE|  -|selftest)" | cut -c1-400; echo "rc=${PIPESTATUS[0]} $(date -u +%H:%M:%S)"; done
