#!/bin/sh
# Build the overlay venv for the checks (offline; wheels from /opt/veriftools/wheels).
set -e
cd "$(dirname "$0")"
if [ ! -x .venv/bin/python ] || ! .venv/bin/python -c "import z3, six" 2>/dev/null; then
  rm -rf .venv
  /venv/bin/python -m venv .venv
  SP=$(.venv/bin/python -c "import site;print(site.getsitepackages()[0])")
  printf '/venv/lib/python3.12/site-packages\n' > "$SP/_overlay.pth"
  PIP_NO_INDEX=1 .venv/bin/pip install -q --no-index --find-links /opt/veriftools/wheels z3-solver cvc5 crosshair-tool jsonschema >/dev/null 2>&1 || \
  PIP_NO_INDEX=1 .venv/bin/pip install -q --no-index --find-links /opt/veriftools/wheels z3-solver
fi
.venv/bin/python -c "import z3, six; print('z3', z3.get_version_string())"
# model self-test (pure-Python models of C-level operations vs CPython); the suite-on-instrumented-package
# translator validation runs with every thorough check (./vcheck --selftest)
PYTHONPATH="$(pwd)" .venv/bin/python -m symlomond.selftest --no-suite
