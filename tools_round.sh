#!/bin/sh
# usage: tools_round.sh <id> ...   (id like C09c): remove the agent worktree, verify the change, test the property's quick check
for id in "$@"; do
  prop=$(echo $id | cut -c1-3)
  git -C /repo worktree remove --force /tmp/mut/$id 2>/dev/null
  v=$(./tools_verify_mutant.sh /tmp/mut/out/$id $id $prop 2>&1 | tail -2 | tr '\n' ' ')
  if echo "$v" | grep -q " CONFIRMED"; then
    r=$(./tools_try_mutant_wt.sh /verif/seeded/$id/patch.diff $prop 2>&1 | grep -v KNOWN | tail -2 | tr '\n' ' ' | cut -c1-420)
    echo "$id: confirmed | $r"
  else
    echo "$id: $v"
  fi
done
git -C /repo worktree prune
