"""
C03 (H-build): every accepted send_* / close call writes exactly one valid, masked, minimal client frame
that unmasks to the caller's payload; rejected calls raise TypeError/ValueError and write nothing.

A connected WebSocket is constructed directly (session + stub socket); ONE api call is made with symbolic
arguments (payload content, masking key from os.urandom, text code points, close code / reason);
the bytes handed to sendall are decoded by the independent RFC 6455 section 5.2 decoder.
"""
import z3
from .common import *
from symlomond.symdata import SymStr, SymBytes, mk_bytes, mk_str, items_of, eq_items


def connected(c, w, symbolic_key=True):
    L = lomond()
    from lomond.session import WebsocketSession
    ws = L.WebSocket('ws://example.com/')
    s = WebsocketSession(ws)
    ws.state.session = s
    sock = env._PlainSocket(w)
    sock.connected = True
    s._sock = sock
    s._ready = True
    if symbolic_key:
        def ur(n):
            k = w.notes.setdefault('nkey', 0)
            w.notes['nkey'] = k + 1
            return mk_bytes([c.byte('key%d_%d' % (k, i)) for i in range(n)])
        w.urandom = ur
    return ws, sock


def payload_of_len(c, n, name='d', sym_edge=8):
    """n bytes: symbolic at both ends (up to sym_edge each), concrete pattern in the middle for big n"""
    if n <= 2 * sym_edge:
        return [c.byte('%s%d' % (name, i)) for i in range(n)]
    head = [c.byte('%s%d' % (name, i)) for i in range(sym_edge)]
    tail = [c.byte('%s_t%d' % (name, i)) for i in range(sym_edge)]
    mid = [(i * 7 + 3) & 0xFF for i in range(n - 2 * sym_edge)]
    return head + mid + tail


def check_one_frame(c, w, sock, opcode, payload_items, what):
    """exactly one write carrying exactly one well-formed frame with the given payload"""
    writes = [e[2] for e in w.log if e[0] == 'write' and e[1] == sock.id]
    if not writes:
        c.fail('C03: %s wrote nothing' % what)
    # (the property speaks of the FRAME on the wire: a frame handed to the socket in several sendall calls is still one frame;
    # whether such a split write is atomic with respect to other threads is the business of the scheduler explorations)
    wire = []
    for x in writes:
        wire.extend(items_of(x))
    try:
        frames = refmodel.decode_client_frames(wire)
    except refmodel.WireError as e:
        c.fail('C03: %s wrote bytes that do not decode as a masked frame: %s' % (what, e))
    if len(frames) != 1:
        c.fail('C03: %s wrote %d frames in one call' % (what, len(frames)))
    f = frames[0]
    if not f['fin']:
        c.fail('C03: %s wrote a frame without FIN' % what)
    if f['rsv1'] or f['rsv2'] or f['rsv3']:
        c.fail('C03: %s set a reserved bit without negotiated compression' % what)
    if f['opcode'] != opcode:
        c.fail('C03: %s wrote opcode %d (expected %d)' % (what, f['opcode'], opcode))
    if not f['minimal']:
        c.fail('C03: %s did not use the shortest length encoding' % what)
    if f['opcode'] >= 8 and f['length'] > 125:
        c.fail('C03: %s wrote a control frame with a %d byte payload' % (what, f['length']), sig='C03: control frame payload > 125 written by ' + what.split('(')[0])
    if f['length'] != len(payload_items):
        c.fail('C03: %s: frame announces %d payload bytes, caller supplied %d' % (what, f['length'], len(payload_items)))
    c.prove(eq_items(f['payload'], payload_items), 'C03: %s: unmasking the written frame does not give the caller payload' % what)
    return f


def expect_reject(c, w, sock, fn, what, allowed=(TypeError, ValueError)):
    try:
        fn()
    except allowed:
        pass
    except Exception as e:
        c.fail('C03: %s raised %s instead of TypeError/ValueError' % (what, type(e).__name__))
    else:
        c.fail('C03: %s was accepted' % what, sig='C03: accepted: ' + what.split('(')[0])
    if any(e[0] in ('write', 'write-failed') for e in w.log):
        c.fail('C03: %s was rejected but bytes were written' % what)


def _run_compressed(c, w, ws, sock, P):
    """permessage-deflate negotiated (abstract zlib): RSV1 iff the caller asked for compression, and the reference
    peer restores the payload"""
    from lomond.compression import Deflate
    from .deflate import RefPeerInflater
    ws.state.compression = Deflate(15, 15, False, False)
    which = c.choose(2, 'api')
    comp = bool(c.boolean('compress_arg'))
    n = [0, 1, 3][c.choose(3, 'len')]
    data = [c.byte('d%d' % i) for i in range(n)]
    if which == 0:
        if c.concrete is None:
            for b in data:
                c.assume(z3.ULT(b.e, 0x80))
        else:
            data = [b & 0x7F for b in data]
        ws.send_text(mk_str(data) if c.concrete is None else bytes(data).decode('ascii'), compress=comp)
        op = 1
    else:
        ws.send_binary(mk_bytes(data), compress=comp)
        op = 2
    writes = [e[2] for e in w.log if e[0] == 'write' and e[1] == sock.id]
    if not writes:
        c.fail('C03: send on a compressed connection wrote nothing')
    wire = []
    for x in writes:
        wire.extend(items_of(x))
    frames = refmodel.decode_client_frames(wire)
    if len(frames) != 1:
        c.fail('C03: %d frames written' % len(frames))
    f = frames[0]
    if not f['fin'] or f['opcode'] != op or f['rsv2'] or f['rsv3'] or not f['minimal']:
        c.fail('C03: wrong FIN/opcode/RSV2/RSV3/length form on a compressed connection')
    if f['rsv1'] != comp:
        c.fail('C03: RSV1=%s although compression negotiated and compress=%s was requested' % (f['rsv1'], comp),
               sig='C03: RSV1 does not follow the compress argument')
    if comp:
        try:
            got = RefPeerInflater(c, 15, False).inflate(f['payload'])
        except ValueError as e:
            c.fail('C03: peer cannot inflate the compressed frame: %s' % e)
        c.prove(eq_items(got, data), 'C03: inflating the written frame does not give the caller payload')
    else:
        c.prove(eq_items(f['payload'], data), 'C03: uncompressed frame payload differs from the caller payload')
    cls = 'compressed:%s:%s:%d' % ('text' if op == 1 else 'binary', comp, n)
    # (write lengths differ between the abstract codec and the real zlib used in replays: not part of the observable)
    return {'cls': cls, 'sample': {'call': cls}, 'observe': {'call': cls, 'nwrites': len(writes)}}


LENS_QUICK = [0, 1, 2, 3, 4, 5, 7, 8, 124, 125, 126, 127, 128]
LENS_THOROUGH = LENS_QUICK + [6, 65535, 65536, 65537]
CTRL_LENS = [0, 1, 4, 5, 124, 125]


def run_build(c, P):
    try:
        return _run_build(c, P)
    except (TypeError, ValueError) as e:
        # an argument the property requires to be accepted was rejected
        c.fail('C03: a sendable call was rejected with %s: %s' % (type(e).__name__, e), sig='C03: sendable call rejected')
    except Exception as e:
        c.fail('C03: call raised %s: %s' % (type(e).__name__, e))


def _run_build(c, P):
    w = new_world()
    kind = P['kind']
    # (argument-type cases use a concrete masking key: a native bytearray handed in by the caller must flow
    #  through the library un-modelled so that an in-place modification is observable)
    ws, sock = connected(c, w, symbolic_key=(kind != 'types'))
    if kind == 'compressed':
        return _run_compressed(c, w, ws, sock, P)
    lens = P['lens']
    cls = kind
    if kind == 'binary':
        n = lens[c.choose(len(lens), 'len')]
        data = payload_of_len(c, n)
        arg = mk_bytes(data)
        compress = bool(c.boolean('compress_arg'))
        ws.send_binary(arg, compress=compress)
        check_one_frame(c, w, sock, 2, data, 'send_binary(%d bytes)' % n)
        c.prove(eq_items(items_of(arg), data), 'C03: send_binary modified the caller data')
        cls = 'binary:%d' % n
    elif kind == 'text':
        k = lens[c.choose(len(lens), 'nchars')]
        cps = []
        for i in range(k):
            cp = c.int('cp%d' % i, 21)
            if c.concrete is None:
                c.assume(z3.And(z3.ULE(cp.e, 0x10FFFF), z3.Or(z3.ULT(cp.e, 0xD800), z3.UGT(cp.e, 0xDFFF))))
            cps.append(cp)
        text = mk_str(cps) if c.concrete is None else ''.join(chr(x) for x in cps)
        want = items_of(symdata.utf8_encode_forking(cps)) if c.concrete is None else list(text.encode('utf-8'))
        compress = bool(c.boolean('compress_arg'))
        ws.send_text(text, compress=compress)
        check_one_frame(c, w, sock, 1, want, 'send_text(%d chars)' % k)
        cls = 'text:%d:%dB' % (k, len(want))
    elif kind in ('ping', 'pong'):
        n = lens[c.choose(len(lens), 'len')]
        data = payload_of_len(c, n)
        arg = mk_bytes(data)
        if n > 125:
            expect_reject(c, w, sock, lambda: (ws.send_ping if kind == 'ping' else ws.send_pong)(arg),
                          'send_%s(%d bytes)' % (kind, n))
            cls = '%s:reject' % kind
        else:
            (ws.send_ping if kind == 'ping' else ws.send_pong)(arg)
            check_one_frame(c, w, sock, 9 if kind == 'ping' else 10, data, 'send_%s(%d bytes)' % (kind, n))
            cls = '%s:%d' % (kind, n)
    elif kind == 'close':
        n = lens[c.choose(len(lens), 'len')]
        code = c.int('code', 16)
        reason = payload_of_len(c, n, 'r', sym_edge=4)
        if c.concrete is None and P.get('valid_utf8_reason', False):
            c.assume(symdata.utf8_valid_term(reason))
        arg = mk_bytes(reason)
        pay = [(code >> 8) & 0xFF if isinstance(code, int) else SymInt(z3.Extract(15, 8, code.e), 8),
               code & 0xFF if isinstance(code, int) else SymInt(z3.Extract(7, 0, code.e), 8)] + list(reason)
        if n + 2 > 125:
            expect_reject(c, w, sock, lambda: ws.close(code, arg), 'close(code, %d byte reason)' % n)
            if ws.is_closing:
                c.fail('C03: rejected close() left the WebSocket in the closing state')
            cls = 'close:reject'
        else:
            ws.close(code, arg)
            check_one_frame(c, w, sock, 8, pay, 'close(code, %d byte reason)' % n)
            cls = 'close:%d' % n
    elif kind == 'close_text':
        # reason given as str: sent as its UTF-8 encoding
        k = lens[c.choose(len(lens), 'nchars')]
        cps = []
        for i in range(k):
            cp = c.int('cp%d' % i, 21)
            if c.concrete is None:
                c.assume(z3.And(z3.ULE(cp.e, 0x10FFFF), z3.Or(z3.ULT(cp.e, 0xD800), z3.UGT(cp.e, 0xDFFF))))
            cps.append(cp)
        text = mk_str(cps) if c.concrete is None else ''.join(chr(x) for x in cps)
        want = items_of(symdata.utf8_encode_forking(cps)) if c.concrete is None else list(text.encode('utf-8'))
        ws.close(1000, text)
        check_one_frame(c, w, sock, 8, [0x03, 0xE8] + want, 'close(1000, %d char str)' % k)
        cls = 'close_text:%d' % k
    elif kind == 'close_text_long':
        # reason = N copies of ONE symbolic code point (any plane): the UTF-8 size class x N crosses the 123-byte bound
        N = lens[c.choose(len(lens), 'nchars')]
        cp = c.int('cp', 21)
        if c.concrete is None:
            c.assume(z3.And(z3.ULE(cp.e, 0x10FFFF), z3.Or(z3.ULT(cp.e, 0xD800), z3.UGT(cp.e, 0xDFFF))))
        cps = [cp] * N
        text = mk_str(cps) if c.concrete is None else chr(cp) * N
        want = items_of(symdata.utf8_encode_forking(cps)) if c.concrete is None else list(text.encode('utf-8'))
        if len(want) + 2 > 125:
            expect_reject(c, w, sock, lambda: ws.close(1000, text), 'close(1000, %d chars = %d bytes)' % (N, len(want)))
            if ws.is_closing:
                c.fail('C03: rejected close() left the WebSocket in the closing state')
            cls = 'close_text_long:reject:%dx%d' % (N, len(want) // N)
        else:
            ws.close(1000, text)
            check_one_frame(c, w, sock, 8, [0x03, 0xE8] + want, 'close(1000, %d chars = %d bytes)' % (N, len(want)))
            cls = 'close_text_long:%dx%d' % (N, len(want) // N)
    elif kind == 'types':
        which = c.choose(10, 'case')
        b = mk_bytes([c.byte('x0'), c.byte('x1')])
        # a str that has no UTF-8 encoding: one lone surrogate (every one of U+D800..U+DFFF) between two ASCII characters
        sur = c.int('sur', 16)
        if c.concrete is None:
            c.assume(z3.And(z3.UGE(sur.e, 0xD800), z3.ULE(sur.e, 0xDFFF)))
            lone = mk_str([0x61, sur, 0x62])
        else:
            lone = 'a' + chr(0xD800 | (sur & 0x7FF)) + 'b'
        t = mk_str([c.int('y0', 7)]) if c.concrete is None else chr(c.int('y0', 7))
        cases = [
            ('send_text(bytes)', lambda: ws.send_text(b)),
            ('send_text(None)', lambda: ws.send_text(None)),
            ('send_text(int)', lambda: ws.send_text(5)),
            ('send_binary(str)', lambda: ws.send_binary(t)),
            ('send_binary(bytearray)', lambda: ws.send_binary(bytearray(b'ab'))),
            ('send_binary(None)', lambda: ws.send_binary(None)),
            ('send_ping(str)', lambda: ws.send_ping(t)),
            ('send_pong(str)', lambda: ws.send_pong(t)),
            ('send_pong(None)', lambda: ws.send_pong(None)),
            ('send_text(lone surrogate)', lambda: ws.send_text(lone)),
        ]
        name, fn = cases[which]
        if name == 'send_binary(bytearray)':
            mine = bytearray(b'caller-owned buffer')
            keep = bytes(mine)
            try:
                ws.send_binary(mine)
                accepted = True
            except (TypeError, ValueError):
                accepted = False
            if bytes(mine) != keep:
                c.fail('C03: send_binary modified the caller\'s bytearray in place', sig='C03: caller data modified')
            if accepted:
                c.fail('C03: send_binary(bytearray) was accepted', sig='C03: accepted: send_binary')
            if any(e[0] in ('write', 'write-failed') for e in w.log):
                c.fail('C03: send_binary(bytearray) was rejected but bytes were written')
        else:
            expect_reject(c, w, sock, fn, name)
        cls = 'types:' + name
    elif kind == 'json':
        import json as _json
        # every JSON document kind, including the falsy ones (null, [], {}, 0, 0.0, false, "")
        objs = [{'foo': 'bar'}, [1, 2, 'x\u20ac'], 'plain', {'n': None, 'k': [True, 1.5]}, None, [], {}, 0, 0.0, False, '', 1, True, [None]]
        which = c.choose(len(objs) + 3, 'case')
        if which == len(objs):
            ws.send_json(foo='bar')
            check_one_frame(c, w, sock, 1, list(_json.dumps({'foo': 'bar'}).encode('utf-8')), 'send_json(foo=...)')
        elif which == len(objs) + 1:
            ws.send_json()
            check_one_frame(c, w, sock, 1, list(b'{}'), 'send_json()')
        elif which == len(objs) + 2:
            # positional AND keyword arguments: documented ValueError, nothing written
            k = c.choose(3, 'posarg')
            expect_reject(c, w, sock, lambda: ws.send_json([{'a': 1}, None, 0][k], foo='bar'), 'send_json(obj, **kwargs)', allowed=(ValueError, TypeError))
        else:
            obj = objs[which]
            ws.send_json(obj)
            check_one_frame(c, w, sock, 1, list(_json.dumps(obj).encode('utf-8')), 'send_json(%r)' % (obj,))
        cls = 'json:%d' % which
    wr = [e for e in w.log if e[0] == 'write']
    return {'cls': cls, 'sample': {'call': cls, 'written_bytes': len(items_of(wr[0][2])) if wr else 0},
            'observe': {'call': cls, 'writes': [len(items_of(e[2])) for e in wr]}}
