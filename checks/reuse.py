"""
C17: each connect() starts from a clean slate.

One WebSocket object is connected twice.  Connection 1 gets N1 symbolic bytes and ends in a solver-chosen
abnormal way (EOF inside the handshake / a header / a frame / a fragmented message / a UTF-8 character,
socket error, rejected upgrade, connect failure, pending close(), abandoned, protocol error).
Connection 2 gets a valid handshake for its new key + N2 symbolic bytes.  In the same path a FRESH WebSocket
object is fed the same connection-2 bytes; events, payload terms and decoded written frames must be equal.
"""
import z3
from .common import *
from .seg import ev_fields, same_value
from symlomond.symdata import items_of, eq_items
from symlomond import symdata
from symlomond.hconn import Abandon

ENDINGS = ['eof', 'error', 'handshake-cut', 'rejected', 'connect-fail', 'close-pending', 'abandon', 'compressed-then-eof']


def frames_of(c, w, sock_id):
    out = []
    first = True
    for e in w.log:
        if e[0] == 'write' and e[1] == sock_id:
            if first:
                first = False
                continue
            for f in refmodel.decode_client_frames(items_of(e[2])):
                out.append((f['opcode'], f['fin'], f['rsv1'], f['payload']))
    return out


def request_without_key(c, w, sock_id):
    for e in w.log:
        if e[0] == 'write' and e[1] == sock_id:
            it = items_of(e[2])
            lines = bytes(x if isinstance(x, int) else 63 for x in it).split(b'\r\n')
            return [l for l in lines if not l.lower().startswith(b'sec-websocket-key')]
    return None


def run_reuse(c, P):
    L = lomond()
    N1, N2 = P['N1'], P['N2']
    endings = P.get('endings', ENDINGS)
    ending = endings[c.choose(len(endings), 'ending')]
    ck = dict(poll=1e9, ping_rate=0, ping_timeout=None, close_timeout=None, auto_pong=True)
    quiet2 = 0
    if ending in ('close-pending-timed', 'eof-timed'):
        # wall-clock effects: connection 1 ran with its timeouts armed; connection 2 (and the fresh object) then sits through
        # a quiet period LONGER than every timeout of connection 1 before its bytes arrive (virtual clock; threading.Timer
        # callbacks fire on it) - nothing armed by connection 1 may act on connection 2
        ck = dict(poll=1.0, ping_rate=0, ping_timeout=None, close_timeout=P.get('close_timeout', 5.0), auto_pong=True)
        quiet2 = P.get('quiet', 8)
    compress = ending in ('compressed-then-eof', 'compressed-then-plain') or P.get('compress', False)
    ext_params = P.get('ext_params', '')          # e.g. '; client_no_context_takeover' - the same header on both connections
    ext = (b'Sec-WebSocket-Extensions: permessage-deflate' + ext_params.encode() + b'\r\n') if (compress and ending != 'compressed-then-plain') else b''
    client_nt = 'client_no_context_takeover' in ext_params
    # ---------------- world A: the reused object
    w = new_world()
    s1 = [c.byte('x%d' % i) for i in range(N1)]
    if P.get('first1') and c.concrete is None and N1:
        c.assume(z3.Or([(s1[0].e & 0x7F) == op for op in P['first1']]))
    s2 = [c.byte('y%d' % i) for i in range(N2)]
    if ending == 'compressed-then-eof':
        # connection 2: a NEW server context sends a first compressed message (needs no history) + symbolic bytes
        from .deflate import RefPeerDeflater
        d2 = RefPeerDeflater(c, 15, False)
        d2.gen = 210
        n1 = d2.compress(list(b'fresh start'))
        s2 = [0xC1, len(n1)] + list(n1) + s2
    app1 = None
    if ending == 'eof':
        w.scripts[0] = Script(hconn.server_stream(s1, extra=ext), end='eof')
    elif ending == 'error':
        w.scripts[0] = Script(hconn.server_stream(s1, extra=ext), end='error')
    elif ending == 'handshake-cut':
        def cut_stream(w_, sock):
            full = hconn.reply_101(w_, sock)
            k = c.choose(len(full), 'hscut')
            return full[:k]
        w.scripts[0] = Script(cut_stream, end='eof')
    elif ending == 'rejected':
        w.scripts[0] = Script(lambda w_, s_: list(b'HTTP/1.1 403 Forbidden\r\n\r\n') + s1, end='eof')
    elif ending == 'connect-fail':
        w.scripts[0] = Script(hconn.server_stream(s1), end='eof')
        w.fault_hook = env.SymFaults(['connect'], ['oserror'], 1)
    elif ending in ('close-pending', 'close-pending-timed'):
        w.scripts[0] = Script(hconn.server_stream(s1), end='eof')

        def app1(idx, ev, ws_, gen):
            if ev.name == 'ready':
                ws_.close(1001, b'bye')
    elif ending == 'eof-timed':
        w.scripts[0] = Script(hconn.server_stream(s1), end='eof')
    elif ending == 'compressed-then-plain':
        # connection 1 negotiates permessage-deflate; connection 2's server does not
        w.scripts[0] = Script(hconn.server_stream(s1, extra=b'Sec-WebSocket-Extensions: permessage-deflate\r\n'), end='eof')
    elif ending == 'abandon-keep':
        # abandoned while suspended at an event, and the generator object is still referenced during connection 2
        w.scripts[0] = Script(hconn.server_stream([0x81, 0x01, 0x61] + s1), end='eof')
        at = 2 + c.choose(4, 'abandon_at')

        def app1(idx, ev, ws_, gen, at=at):
            if idx == at:
                raise Abandon()
    elif ending == 'abandon':
        w.scripts[0] = Script(hconn.server_stream(s1), end='eof')
        at = c.choose(5, 'abandon_at')

        def app1(idx, ev, ws_, gen, at=at):
            if idx == at:
                raise Abandon()
    elif ending == 'compressed-then-eof':
        # a compressed message with context takeover, then the stream stops inside the next frame
        # server side of the reference peer: message 1 and 2 of one deflate context (context takeover)
        from .deflate import RefPeerDeflater
        d1 = RefPeerDeflater(c, 15, False)
        m1 = d1.compress(list(b'hello hello'))
        m2 = d1.compress(list(b'hello again'))
        # connection 1 stops inside the second compressed message
        w.scripts[0] = Script(hconn.server_stream([0xC1, len(m1)] + list(m1) + [0xC1, len(m2)] + list(m2)[:3] + s1, extra=ext), end='eof')
    ws = L.WebSocket('ws://example.com/', compress=compress)
    sent_c = {1: [], 2: [], 'fresh': []}
    if ending == 'compressed-then-eof':
        def mk_sender(tag):
            def app(idx, ev, ws_, gen):
                if ev.name == 'ready':
                    # two compressed sends per connection (context takeover: the second depends on the first)
                    for j in range(2):
                        pay = [0x41, 0x41, 0x41, 0x41 + j] if c.concrete is not None else [c.byte('cs_%s_%d' % (tag, j)), 0x41, 0x41]
                        ws_.send_binary(symdata.mk_bytes(pay))
                        sent_c[tag].append(pay)
            return app
        app1 = mk_sender(1)
    rec1 = hconn.drive(w, ws, ck, app1)
    if getattr(rec1, 'abandoned', False) and rec1.gen is not None and ending != 'abandon-keep':
        rec1.gen.close()
    if w.fault_hook is not None:
        w.fault_hook.left = 0
    n_socks_1 = len(w.socks)
    n_log_1 = len(w.log)
    # ---------------- connection 2 on the same object
    idx2 = w.conn_count
    if quiet2:
        w.scripts[idx2] = Script(hconn.server_stream(s2, extra=ext), end='silence', silent_waits=quiet2)
    else:
        w.scripts[idx2] = Script(hconn.server_stream(s2, extra=ext), end='eof')
    state_at_connecting = {}

    sender2 = mk_sender(2) if ending == 'compressed-then-eof' else None
    if ending == 'compressed-then-plain':
        def sender2(idx, ev, ws_, gen):
            if ev.name == 'ready':
                ws_.send_binary(symdata.mk_bytes([c.byte('plain2'), 0x42]))

    def app2(idx, ev, ws_, gen):
        if sender2 is not None:
            sender2(idx, ev, ws_, gen)
        if ev.name == 'connecting':
            state_at_connecting.update(closing=ws_.is_closing, closed=ws_.is_closed, sct=ws_.sent_close_time,
                                       comp=ws_.supports_compression, active=ws_.is_active)
    rec2 = hconn.drive(w, ws, ck, app2)
    sock2 = w.socks[-1] if len(w.socks) > n_socks_1 else None
    # ---------------- world B: a fresh object, same connection-2 bytes
    wb = new_world()
    if quiet2:
        wb.default_script = Script(hconn.server_stream(s2, extra=ext), end='silence', silent_waits=quiet2)
    else:
        wb.default_script = Script(hconn.server_stream(s2, extra=ext), end='eof')
    fresh = L.WebSocket('ws://example.com/', compress=compress)
    recf = hconn.drive(wb, fresh, ck, mk_sender('fresh') if ending == 'compressed-then-eof' else
                       (sender2 if ending == 'compressed-then-plain' else None))
    World.cur = w
    c.notes['scenario'] = dict(ending=ending, conn1=rec1.names(), conn2=rec2.names(), fresh=recf.names())
    # ---------------- obligations
    for r, nm in ((rec1, 'connection 1'), (rec2, 'connection 2'), (recf, 'fresh object')):
        if r.exc is not None:
            c.fail('C17: exception escaped the iterator of %s: %r' % (nm, r.exc))
        if r.budget is not None:
            raise EngineLimit('loop budget in reuse harness')
    if state_at_connecting.get('closing') or state_at_connecting.get('closed') or \
            state_at_connecting.get('sct') is not None or state_at_connecting.get('comp') or \
            not state_at_connecting.get('active', True):
        c.fail('C17: stale state at the start of the second connect(): %r (connection 1 ended by %s)'
               % (state_at_connecting, ending))
    n2, nf = rec2.names(), recf.names()
    if n2 != nf:
        c.fail('C17: reconnect after "%s" yields %s, a fresh WebSocket yields %s' % (ending, n2, nf),
               sig='C17: event sequence of the reconnect differs from a fresh object')
    for i, (ea, eb) in enumerate(zip(rec2.events, recf.events)):
        for (ka, va), (kb, vb) in zip(ev_fields(ea), ev_fields(eb)):
            if ka == 'response.raw':
                continue
            same_value(c, va, vb, 'C17: %s.%s of event %d differs between the reconnect and a fresh object' % (ea.name, ka, i))
    if sock2 is not None and ending == 'compressed-then-eof':
        # the peer of connection 2 is a NEW server: its inflater starts without history and must restore what the
        # reused object sends (a compressor carried over from connection 1 would refer to history the peer never saw)
        from .deflate import RefPeerInflater
        infl = RefPeerInflater(c, 15, client_nt)
        comp_frames = [f for f in frames_of(c, w, sock2.id) if f[0] == 2]
        if len(comp_frames) != len(sent_c[2]):
            c.fail('C17: reconnect wrote %d data frames for %d sends' % (len(comp_frames), len(sent_c[2])))
        for f, pay in zip(comp_frames, sent_c[2]):
            if not f[2]:
                c.fail('C17: reconnect sent uncompressed although compression was negotiated again')
            try:
                got = infl.inflate(f[3])
            except ValueError as e:
                c.fail('C17: a new peer cannot inflate what the reused object sends on its second connection: %s' % e,
                       sig='C17: compression context carried over to the next connection')
            c.prove(eq_items(got, pay), 'C17: message of the second connection inflates to different content')
    elif sock2 is not None:
        fa = frames_of(c, w, sock2.id)
        fb = frames_of(c, wb, 0)
        if len(fa) != len(fb):
            c.fail('C17: reconnect wrote %d frames, a fresh object %d' % (len(fa), len(fb)))
        for i, (x, y) in enumerate(zip(fa, fb)):
            if x[:3] != y[:3]:
                c.fail('C17: frame %d written by the reconnect differs in opcode/flags' % i)
            c.prove(eq_items(x[3], y[3]), 'C17: payload of frame %d written by the reconnect differs' % i)
        ra, rb = request_without_key(c, w, sock2.id), request_without_key(c, wb, 0)
        if ra != rb:
            c.fail('C17: upgrade request of the reconnect differs from a fresh object beyond the key')
        k1 = hconn.request_key(w, w.socks[0]) if n_socks_1 and any(e[0] == 'write' and e[1] == 0 for e in w.log) else None
        k2 = hconn.request_key(w, sock2)
        if k1 is not None and k2 is not None and symdata._concrete(k1) and symdata._concrete(k2) and k1 == k2:
            c.fail('C17: the second connection reuses the Sec-WebSocket-Key of the first')
    cls = ['ending:' + ending]
    if 'ready' in n2:
        cls.append('conn2-ready')
    for n in n2[3:-1]:
        cls.append('conn2:' + n)
    return {'cls': cls, 'sample': {'ending': ending, 'conn1': rec1.names(), 'conn2': n2},
            'observe': {'conn1': rec1.names(), 'conn2': n2, 'fresh': nf}}
