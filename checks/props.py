"""property -> explorations (quick / thorough) -> runner"""
from symlomond.runner import Spec, run_property

RECV_FUNCS = ['lomond.session.WebsocketSession.run/_recv/_on_event/_send_pong/write/send',
              'lomond.websocket.WebSocket.connect/feed/on_response/_on_close/close/send_pong/_send_close',
              'lomond.stream.WebsocketStream.feed/build_message', 'lomond.parser.Parser.feed',
              'lomond.frame_parser.FrameParser.parse/on_frame', 'lomond.frame.Frame.validate/build',
              'lomond.message.Message.build/Close.from_payload/Text.from_payload',
              'lomond.utf8validator.Utf8Validator.validate', 'lomond.response.Response.__init__',
              'lomond.mask.mask_payload', 'lomond.selectors.SelectorBase.wait']

ENV_ASSUMPTIONS = [
    'socket/ssl/select/time/os.urandom are stubs (symlomond.env); the only transport behaviours are those the stubs can produce',
    'sequence models (bytes/bytearray/str methods, struct, b64) are pure-Python re-implementations differential-tested against CPython',
    "CPython's UTF-8 codec is modelled by an RFC 3629 acceptor (trusted)",
    'bound: only streams of the stated length after the handshake; longer streams are outside the claim',
    'logging disabled (message formatting not executed)',
]


def recv_spec(name, tags, **P):
    P = dict(P)
    P['tags'] = list(tags)
    if 'family' in P:
        F = P['family']
        P.setdefault('N', 0)
        return Spec(name, 'checks.recv', 'run_recv', P,
                    what='fragmentation family: a %s message of %d symbolic payload bytes in every split into <=%d '
                         'fragments (empty ones included), optionally one empty control frame between two fragments '
                         '(template index is a solver variable), cuts=%s; obligations %s'
                         % ({1: 'text', 2: 'binary'}[F.get('opcode', 1)], F['L'], F.get('max_frags', 3),
                            P.get('cuts', 'one'), ','.join(tags)))
    return Spec(name, 'checks.recv', 'run_recv', P,
                what='%d symbolic stream bytes after a valid handshake (cuts=%s), passive application; '
                     'obligations tagged %s vs RFC 6455 reference receiver' % (P['N'], P.get('cuts', 'one'), ','.join(tags)))


def c01(tier):
    tags = ['C01']
    if tier == 'quick':
        specs = [recv_spec('recv-N5', tags, N=5), recv_spec('recv-N6-nonfin', tags, N=6, first_nonfin=True, no_rsv=True),
                 recv_spec('recv-N6-nonfin-bytewise', tags, N=6, first_nonfin=True, no_rsv=True, cuts='bytewise')]
    else:
        specs = [recv_spec('recv-N7', tags, N=7), recv_spec('recv-N9-nonfin', tags, N=9, first_nonfin=True, no_rsv=True)]
    return run_property('C01', tier, specs, 'model_checking', 'delivery once/in order/byte-exact',
                        ENV_ASSUMPTIONS, RECV_FUNCS)


def c04(tier):
    tags = ['C04']
    if tier == 'quick':
        specs = [recv_spec('recv-N5', tags, N=5), recv_spec('recv-N4-bytewise', tags, N=4, cuts='bytewise')]
    else:
        specs = [recv_spec('recv-N7', tags, N=7), recv_spec('recv-N6-bytewise', tags, N=6, cuts='bytewise')]
    return run_property('C04', tier, specs, 'model_checking', 'protocol violations', ENV_ASSUMPTIONS, RECV_FUNCS)


def c14(tier):
    tags = ['C14']
    if tier == 'quick':
        specs = [recv_spec('recv-N5', tags, N=5, auto_pong='sym'),
                 recv_spec('recv-N4-writefault', tags, N=4, first_opcodes=[9, 1, 2, 0],
                           fault=dict(ops=['sendall'], kinds=['oserror', 'exception'], max=1, skip={'sendall': 1}))]
    else:
        specs = [recv_spec('recv-N7', tags, N=7, auto_pong='sym')]
    return run_property('C14', tier, specs, 'model_checking', 'ping/pong', ENV_ASSUMPTIONS, RECV_FUNCS)


def c05(tier):
    from checks import utf8
    tags = ['C05']
    if tier == 'quick':
        specs = [recv_spec('recv-text-N6-bytewise', tags, N=6, first_opcodes=[1], no_rsv=True, cuts='bytewise'),
                 recv_spec('frag-text-L3', tags + ['C01'], family=dict(opcode=1, L=3, max_frags=3), cuts='bytewise'),
                 recv_spec('recv-close-N6', tags + ['C01', 'C04'], N=6, first_opcodes=[8], no_rsv=True)]
    else:
        specs = [recv_spec('recv-text-N8-bytewise', tags, N=8, first_opcodes=[1], no_rsv=True, cuts='bytewise'),
                 recv_spec('frag-text-L4', tags + ['C01'], family=dict(opcode=1, L=4, max_frags=4), cuts='bytewise'),
                 recv_spec('frag-text-L3-tail2', tags + ['C01'], family=dict(opcode=1, L=3, max_frags=3, tail_sym=2), cuts='bytewise'),
                 recv_spec('recv-text-N9-nonfin-bytewise', tags, N=9, first_opcodes=[1], first_nonfin=True, no_rsv=True, cuts='bytewise'),
                 recv_spec('recv-text-N6-allcuts', tags, N=6, first_opcodes=[1], no_rsv=True, cuts='sym'),
                 recv_spec('recv-close-N8', tags + ['C01', 'C04'], N=8, first_opcodes=[8], no_rsv=True)]
    return run_property('C05', tier, specs, 'model_checking', 'strict UTF-8', ENV_ASSUMPTIONS + [
        'layer 1 (bisimulation of the DFA with the RFC 3629 grammar) is unbounded in the input length; layer 2 (pipeline) is bounded as stated',
        'wsaccel C validator not installed: the pure-Python fallback is the code under test'],
        RECV_FUNCS, pre=utf8.closure)


def seg_spec(name, **P):
    P = dict(P)
    P.setdefault('N', 0)
    P.setdefault('tags', ['C02'])
    return Spec(name, 'checks.seg', 'run_seg', P,
                what='same symbolic stream (%s) run in one read and again cut by mode=%s (cut positions are solver '
                     'variables); events, payload terms, written bytes and write/event interleaving proved equal'
                     % ('family %r' % P['family'] if P.get('family') else '%d symbolic bytes%s' % (
                         P['N'], ' after a %d-byte frame' % P['big_prefix'] if P.get('big_prefix') else ''), P['mode']))


def c02(tier):
    if tier == 'quick':
        specs = [seg_spec('allcuts-N4', N=4, mode='frames-allcuts'),
                 seg_spec('bytewise-N5', N=5, mode='bytewise-frames'),
                 seg_spec('hs-joined-N3', N=3, mode='hs-joined-bytewise'),
                 seg_spec('one-cut-anywhere-N3', N=3, mode='one-cut-anywhere', hs_window=8),
                 seg_spec('bytewise-all-N2', N=2, mode='bytewise-all'),
                 seg_spec('burst-after-hs', N=2, mode='after-hs', big_prefix=16400),
                 seg_spec('frag-text-L3-allcuts', family=dict(opcode=1, L=3, max_frags=2), mode='frames-allcuts')]
    else:
        specs = [seg_spec('allcuts-N5', N=5, mode='frames-allcuts'),
                 seg_spec('two-cuts-N6', N=6, mode='two-cuts', hs_window=4),
                 seg_spec('bytewise-N7', N=7, mode='bytewise-frames'),
                 seg_spec('hs-joined-N5', N=5, mode='hs-joined-bytewise'),
                 seg_spec('one-cut-anywhere-N4', N=4, mode='one-cut-anywhere', hs_window=200),
                 seg_spec('bytewise-all-N3', N=3, mode='bytewise-all'),
                 seg_spec('burst-after-hs', N=3, mode='after-hs', big_prefix=16400),
                 seg_spec('burst-after-hs-64k', N=2, mode='after-hs', big_prefix=65400),
                 seg_spec('frag-text-L4-allcuts', family=dict(opcode=1, L=4, max_frags=3), mode='frames-allcuts')]
    return run_property('C02', tier, specs, 'model_checking', 'independence from TCP segmentation',
                        ENV_ASSUMPTIONS + ['reference segmentation = whole stream in one read (lemma mode: p|d1+d2)',
                                           'compressed streams: see C06 (zlib abstracted)'], RECV_FUNCS)


PROPS = {'C02': c02, 'C05': c05, 'C01': c01, 'C04': c04, 'C14': c14}
