"""property -> explorations (quick / thorough) -> runner"""
from symlomond.runner import Spec, run_property

RECV_FUNCS = ['lomond.session.WebsocketSession.run/_recv/_on_event/_send_pong/write/send',
              'lomond.websocket.WebSocket.connect/feed/on_response/_on_close/close/send_pong/_send_close',
              'lomond.stream.WebsocketStream.feed/build_message', 'lomond.parser.Parser.feed',
              'lomond.frame_parser.FrameParser.parse/on_frame', 'lomond.frame.Frame.validate/build',
              'lomond.message.Message.build/Close.from_payload/Text.from_payload',
              'lomond.utf8validator.Utf8Validator.validate', 'lomond.response.Response.__init__',
              'lomond.mask.mask_payload', 'lomond.selectors.SelectorBase.wait']

ENV_ASSUMPTIONS = [
    'socket/ssl/select/time/os.urandom are stubs (symlomond.env); the only transport behaviours are those the stubs can produce',
    'sequence models (bytes/bytearray/str methods, struct, b64) are pure-Python re-implementations differential-tested against CPython',
    "CPython's UTF-8 codec is modelled by an RFC 3629 acceptor (trusted)",
    'bound: only streams of the stated length after the handshake; longer streams are outside the claim',
    'logging disabled (message formatting not executed)',
]


def recv_spec(name, tags, **P):
    P = dict(P)
    P['tags'] = list(tags)
    if P.get('long_frame'):
        P.setdefault('N', 0)
        return Spec(name, 'checks.recv', 'run_recv', P, chunk=12,
                    what='one %s frame (optionally split in two fragments) whose payload length is a solver variable over the boundary grid '
                         '{0,1,125,126,127,255,256,65535,65536,65537} in every legal length form (7/16/64-bit incl. non-minimal encodings), symbolic '
                         'content at both ends, followed by a Text frame; reads=%s; obligations %s'
                         % ({1: 'text', 2: 'binary'}[P.get('long_opcode', 2)], P.get('cuts', 'as large as the 64 KiB receive buffer allows'), ','.join(tags)))
    if P.get('ping_sweep'):
        P.setdefault('N', 0)
        return Spec(name, 'checks.recv', 'run_recv', P,
                    what='one control frame (opcode %d) whose payload length 0..125 is a solver variable, symbolic content at both ends, '
                         'followed by %r; obligations %s' % (P.get('sweep_opcode', 9), P.get('suffix', ''), ','.join(tags)))
    if 'family' in P:
        F = P['family']
        P.setdefault('N', 0)
        return Spec(name, 'checks.recv', 'run_recv', P,
                    what='fragmentation family: a %s message of %d symbolic payload bytes in every split into <=%d '
                         'fragments (empty ones included), optionally one empty control frame between two fragments '
                         '(template index is a solver variable), cuts=%s; obligations %s'
                         % ({1: 'text', 2: 'binary'}[F.get('opcode', 1)], F['L'], F.get('max_frags', 3),
                            P.get('cuts', 'one'), ','.join(tags)))
    return Spec(name, 'checks.recv', 'run_recv', P,
                what='%d symbolic stream bytes after a valid handshake (cuts=%s), passive application; '
                     'obligations tagged %s vs RFC 6455 reference receiver' % (P['N'], P.get('cuts', 'one'), ','.join(tags)))


def carry_specs(tags, L):
    """a fragmented message (symbolic payload, every split) preceded and followed by complete messages of the OTHER kinds"""
    before = ['810161', '8201ff', '8900', '01016180016a', '0201fe8001ff']       # text, binary, ping, fragmented text, fragmented binary
    return [recv_spec('carry-over-binary', tags, family=dict(opcode=2, L=L, max_frags=2, before=before, after=['810162', '8201fd'])),
            recv_spec('carry-over-text', tags, family=dict(opcode=1, L=L, max_frags=2, before=before, after=['810162', '8201fd']))]


def c01(tier):
    tags = ['C01']
    if tier == 'quick':
        specs = [recv_spec('recv-N5', tags, N=5), recv_spec('recv-N6-nonfin', tags, N=6, first_nonfin=True, no_rsv=True),
                 recv_spec('recv-N6-nonfin-bytewise', tags, N=6, first_nonfin=True, no_rsv=True, cuts='bytewise'),
                 recv_spec('frag-text-L3', tags, family=dict(opcode=1, L=3, max_frags=3)),
                 recv_spec('frag-binary-L2-pong', tags, family=dict(opcode=2, L=2, max_frags=3, ctrl=10), cuts='bytewise'),
                 recv_spec('length-forms', tags, long_frame=True, xval_stride=5),
                 recv_spec('after-earlier-connection-text', tags, family=dict(opcode=1, L=2, max_frags=2), earlier=EARLIER),
                 recv_spec('after-earlier-connection-binary', tags, family=dict(opcode=2, L=2, max_frags=2, ctrl=9), earlier=EARLIER)] + carry_specs(tags, 2)
    else:
        specs = [recv_spec('recv-N7', tags, N=7), recv_spec('recv-N9-nonfin', tags, N=9, first_nonfin=True, no_rsv=True),
                 recv_spec('recv-N7-nonfin-bytewise', tags, N=7, first_nonfin=True, no_rsv=True, cuts='bytewise'),
                 recv_spec('recv-N5-allcuts', tags, N=5, cuts='sym'),
                 recv_spec('frag-text-L4', tags, family=dict(opcode=1, L=4, max_frags=4)),
                 recv_spec('frag-text-L3-tail2', tags, family=dict(opcode=1, L=3, max_frags=3, tail_sym=2), cuts='bytewise'),
                 recv_spec('frag-binary-L3-pong', tags, family=dict(opcode=2, L=3, max_frags=3, ctrl=10), cuts='bytewise'),
                 recv_spec('length-forms', tags, long_frame=True, xval_stride=5),
                 recv_spec('length-forms-text-1000', tags + ['C05'], long_frame=True, long_opcode=1, cuts=[1000] * 70, xval_stride=5),
                 recv_spec('length-forms-4096', tags, long_frame=True, cuts=[4096] * 20, xval_stride=5),
                 recv_spec('after-earlier-connection-text', tags, family=dict(opcode=1, L=3, max_frags=3), earlier=EARLIER, cuts='bytewise'),
                 recv_spec('after-earlier-connection-binary', tags, family=dict(opcode=2, L=3, max_frags=3, ctrl=9), earlier=EARLIER)] + carry_specs(tags, 3)
    # delivery continues while the CLIENT is closing (application close() at Ready): the server may still send anything until its own Close
    specs.append(recv_spec('closing-state-N%d' % (4 if tier == 'quick' else 5), tags, N=4 if tier == 'quick' else 5, app_close_at_ready=True))
    specs.append(Spec('frame-step', 'checks.frame', 'run_frame_step', dict(max_chunk=3 if tier == 'quick' else 5, k_max=1 if tier == 'quick' else 2,
                                                                            opcode_list=[2, 1] if tier == 'quick' else [2, 1, 0], xval_stride=11),
                      what='INDUCTIVE STEP on the payload-read state: announced length L symbolic (7/16/63-bit, every value at once), k<=1/2 bytes gathered, '
                           'one feed() of a symbolic chunk of solver-chosen size: remaining/buffer/emission/surplus obligations; with the bounded sweeps this '
                           'covers every length in every form for every chunking (assumption: bytearray behaviour independent of its size)'))
    return run_property('C01', tier, specs, 'model_checking', 'delivery once/in order/byte-exact',
                        ENV_ASSUMPTIONS, RECV_FUNCS)


def c04(tier):
    tags = ['C04']
    fam = [
        # (b) control opcode with the 16-bit length form: all 65536 lengths; those <= 196 complete inside the stream
        recv_spec('ctrl-len16', tags + ['C01'], N=4, first_opcodes=[8, 9, 10], fixed={'1': 126}, suffix='41' * 200),
        # (a) 64-bit length form: 10 symbolic header bytes (all 2^64 lengths)
        recv_spec('len64-header', tags + ['C01'], N=10, fixed={'1': 127}, no_rsv=True, first_opcodes=[1, 2, 9]),
        # (c) Close frames: symbolic 2-byte code (all 65536 codes) + up to 3 reason bytes
        recv_spec('close-codes', tags + ['C01'], N=7, first_opcodes=[8], no_rsv=True),
    ]
    # the same violations received in the CLOSING state (the application called close() at Ready)
    # permessage-deflate OFFERED by the client (compress=True) and DECLINED by the server (no extension header in the reply):
    # nothing was negotiated, so RSV1 is as reserved as RSV2/RSV3 and text is validated incrementally as usual
    fam.append(recv_spec('offer-declined-N4', tags + ['C01', 'C05'], N=4 if tier == 'quick' else 5, offer_declined=True))
    fam.append(recv_spec('offer-declined-text-bytewise', tags + ['C01', 'C05'], N=5, first_opcodes=[1], offer_declined=True, cuts='bytewise'))
    # the checked connection is preceded by an earlier one (unfinished fragments, frames cut anywhere, ...) on another or on the SAME object
    fam.append(recv_spec('after-earlier-connection-N3', tags + ['C01'], N=3, earlier=EARLIER))
    # ... an earlier connection that NEGOTIATED permessage-deflate and received RSV1 frames; the checked one negotiates nothing
    fam.append(recv_spec('after-earlier-compressed-connection-N3', tags + ['C01'], N=3, earlier=['Z', 'Z8900']))
    fam.append(recv_spec('closing-state-N4', tags + ['C01'], N=4 if tier == 'quick' else 5, app_close_at_ready=True))
    fam.append(recv_spec('closing-state-close-codes', tags + ['C01'], N=5 if tier == 'quick' else 6, first_opcodes=[8], no_rsv=True,
                         app_close_at_ready=True))
    if tier == 'quick':
        specs = [recv_spec('recv-N5', tags, N=5), recv_spec('recv-N4-bytewise', tags, N=4, cuts='bytewise')] + fam[:2] + \
                [recv_spec('close-codes', tags + ['C01'], N=6, first_opcodes=[8], no_rsv=True)] + fam[3:]
    else:
        specs = [recv_spec('recv-N7', tags, N=7), recv_spec('recv-N6-bytewise', tags, N=6, cuts='bytewise')] + fam
    return run_property('C04', tier, specs, 'model_checking', 'protocol violations', ENV_ASSUMPTIONS, RECV_FUNCS)


def c14(tier):
    tags = ['C14']
    if tier == 'quick':
        specs = [recv_spec('recv-N5', tags, N=5, auto_pong='sym'),
                 recv_spec('ping-length-sweep', tags + ['C01'], ping_sweep=True, suffix='810161', xval_stride=7),
                 recv_spec('frag-text-L2-ping1', tags + ['C01'], family=dict(opcode=1, L=2, max_frags=3, ctrl_len=1), cuts='bytewise'),
                 recv_spec('rejected-close-then-pings', tags, N=4, first_opcodes=[9], no_rsv=True, app_rejected_close_at_ready=True),
                 recv_spec('pings-with-compression-negotiated', tags + ['C01'], N=4, first_opcodes=[9, 1], no_rsv=True, negotiate_compression=True),
                 recv_spec('recv-N4-writefault', tags, N=4, first_opcodes=[9, 1, 2, 0],
                           fault=dict(ops=['sendall'], kinds=['oserror', 'exception'], max=1, skip={'sendall': 1}))]
    else:
        specs = [recv_spec('recv-N7', tags, N=7, auto_pong='sym'),
                 recv_spec('ping-length-sweep', tags + ['C01'], ping_sweep=True, suffix='810161', xval_stride=7),
                 recv_spec('ping-length-sweep-bytewise', tags + ['C01'], ping_sweep=True, suffix='8900', cuts='bytewise', xval_stride=7),
                 recv_spec('frag-binary-L2-ping2', tags + ['C01'], family=dict(opcode=2, L=2, max_frags=3, ctrl_len=2), cuts='bytewise'),
                 recv_spec('pings-with-compression-negotiated', tags + ['C01'], N=5, first_opcodes=[9, 1], no_rsv=True, negotiate_compression=True),
                 recv_spec('recv-N5-writefault', tags, N=5, first_opcodes=[9, 1, 2, 0],
                           fault=dict(ops=['sendall'], kinds=['oserror', 'exception'], max=1, skip={'sendall': 1}))]
    specs.append(sched_spec('ping-while-another-thread-sends', tags, [['loop'], ['send_text']], 2,
                            'thread 1 runs the REAL event loop and receives a Ping while thread 2 is anywhere inside send_text - also in the middle of its '
                            'sendall, holding the write lock (deterministic scheduler, schedule = solver variables): exactly one Pong with the Ping\'s payload',
                            hs_separate=True, xval_stride=11))
    return run_property('C14', tier, specs, 'model_checking', 'ping/pong', ENV_ASSUMPTIONS + SCHED_ASSUME, RECV_FUNCS + SCHED_FUNCS)


# endings of an earlier connection (another WebSocket object in the same process): clean text, text cut inside a character,
# invalid UTF-8 (connection failed), a fragmented text left unfinished at EOF, a binary message, a frame cut inside its header / extended
# length / payload, a fragmented binary + Ping left unfinished; each ended by EOF or a socket error; on another object or on the SAME object
EARLIER = ['810161', '8102e282', '81018f', '0101e2', '8201ff', '81', '817e00', '81056162', '0201ff8900']


# text messages on a connection with permessage-deflate negotiated (abstract zlib of C06): compressed or not, in 1-2 fragments with every
# fragment boundary, optional Ping between fragments: the text is judged AFTER inflation, whatever the deflate bytes look like
COMPRESSED_TEXT = Spec('compressed-text', 'checks.deflate', 'run_deflate_as',
                       dict(s_spellings=['absent'], c_spellings=['absent'], incoming=1, sends=0, max_frags=2, sym_negotiate=False, xval_stride=61, **{'as': 'C05'}),
                       what='one incoming text/binary message on a connection with permessage-deflate negotiated (abstract zlib, see C06), compressed or '
                            'uncompressed or damaged, 1-2 fragments with EVERY fragment boundary and an optional Ping between them: delivered iff the INFLATED '
                            'payload is valid UTF-8; the raw deflate bytes of continuation frames are not text', chunk=60)


def c05(tier):
    from checks import utf8
    tags = ['C05']
    if tier == 'quick':
        specs = [recv_spec('recv-text-N6-bytewise', tags, N=6, first_opcodes=[1], no_rsv=True, cuts='bytewise'),
                 recv_spec('frag-text-L3', tags + ['C01'], family=dict(opcode=1, L=3, max_frags=3), cuts='bytewise'),
                 recv_spec('frag-text-L2-ping1', tags + ['C01', 'C04', 'C14'], family=dict(opcode=1, L=2, max_frags=3, ctrl_len=1), cuts='bytewise'),
                 recv_spec('recv-close-N6', tags + ['C01', 'C04'], N=6, first_opcodes=[8], no_rsv=True),
                 recv_spec('text-after-earlier-connection', tags + ['C01'], family=dict(opcode=1, L=2, max_frags=2), cuts='bytewise', earlier=EARLIER),
                 COMPRESSED_TEXT]
    else:
        specs = [recv_spec('recv-text-N8-bytewise', tags, N=8, first_opcodes=[1], no_rsv=True, cuts='bytewise'),
                 recv_spec('frag-text-L4', tags + ['C01'], family=dict(opcode=1, L=4, max_frags=4), cuts='bytewise'),
                 recv_spec('frag-text-L3-ping2', tags + ['C01', 'C04', 'C14'], family=dict(opcode=1, L=3, max_frags=3, ctrl_len=2), cuts='bytewise'),
                 recv_spec('frag-text-L3-pong1', tags + ['C01', 'C04'], family=dict(opcode=1, L=3, max_frags=3, ctrl_len=1, ctrl=10)),
                 recv_spec('frag-text-L3-tail2', tags + ['C01'], family=dict(opcode=1, L=3, max_frags=3, tail_sym=2), cuts='bytewise'),
                 recv_spec('text-after-earlier-connection', tags + ['C01'], family=dict(opcode=1, L=3, max_frags=3), cuts='bytewise', earlier=EARLIER),
                 COMPRESSED_TEXT,
                 recv_spec('recv-text-N9-nonfin-bytewise', tags, N=9, first_opcodes=[1], first_nonfin=True, no_rsv=True, cuts='bytewise'),
                 recv_spec('recv-text-N6-allcuts', tags, N=6, first_opcodes=[1], no_rsv=True, cuts='sym'),
                 recv_spec('recv-close-N8', tags + ['C01', 'C04'], N=8, first_opcodes=[8], no_rsv=True)]
    return run_property('C05', tier, specs, 'model_checking', 'strict UTF-8', ENV_ASSUMPTIONS + [
        'layer 1 (bisimulation of the DFA with the RFC 3629 grammar) is unbounded in the input length; layer 2 (pipeline) is bounded as stated',
        'wsaccel C validator not installed: the pure-Python fallback is the code under test'],
        RECV_FUNCS, pre=utf8.closure)


def seg_spec(name, **P):
    P = dict(P)
    P.setdefault('N', 0)
    P.setdefault('tags', ['C02'])
    return Spec(name, 'checks.seg', 'run_seg', P,
                what='same symbolic stream (%s) run in one read and again cut by mode=%s (cut positions are solver '
                     'variables); events, payload terms, written bytes and write/event interleaving proved equal'
                     % ('family %r' % P['family'] if P.get('family') else '%d symbolic bytes%s' % (
                         P['N'], ' after a %d-byte frame' % P['big_prefix'] if P.get('big_prefix') else ''), P['mode']))


def c02(tier):
    if tier == 'quick':
        specs = [seg_spec('allcuts-N4', N=4, mode='frames-allcuts'),
                 seg_spec('bytewise-N5', N=5, mode='bytewise-frames'),
                 seg_spec('hs-joined-N3', N=3, mode='hs-joined-bytewise'),
                 seg_spec('one-cut-anywhere-N3', N=3, mode='one-cut-anywhere', hs_window=8),
                 seg_spec('bytewise-all-N2', N=2, mode='bytewise-all'),
                 seg_spec('head-allcuts-N2', N=2, mode='head-allcuts', head=5),
                 seg_spec('burst-after-hs', N=2, mode='after-hs', big_prefix=16400),
                 seg_spec('burst-after-hs-70k', N=2, mode='after-hs', big_prefix=70000, xval_stride=7),
                 seg_spec('frag-text-L3-allcuts', family=dict(opcode=1, L=3, max_frags=2), mode='frames-allcuts'),
                 # permessage-deflate negotiated (abstract zlib): RSV1 frames are compressed messages; the reply and the frames in one read vs cut
                 seg_spec('hs-joined-compressed-N3', N=3, mode='hs-joined-bytewise', compress=True, extra_headers_hex='5365632d576562536f636b65742d457874656e73696f6e733a207065726d6573736167652d6465666c6174650d0a'),
                 seg_spec('one-cut-anywhere-compressed-N3', N=3, mode='one-cut-anywhere', hs_window=8, compress=True, extra_headers_hex='5365632d576562536f636b65742d457874656e73696f6e733a207065726d6573736167652d6465666c6174650d0a')]
    else:
        specs = [seg_spec('allcuts-N5', N=5, mode='frames-allcuts'),
                 seg_spec('two-cuts-N6', N=6, mode='two-cuts', hs_window=4),
                 seg_spec('bytewise-N7', N=7, mode='bytewise-frames'),
                 seg_spec('hs-joined-N5', N=5, mode='hs-joined-bytewise'),
                 seg_spec('one-cut-anywhere-N4', N=4, mode='one-cut-anywhere', hs_window=200),
                 seg_spec('bytewise-all-N3', N=3, mode='bytewise-all'),
                 seg_spec('head-allcuts-N3', N=3, mode='head-allcuts', head=8),
                 seg_spec('burst-after-hs', N=3, mode='after-hs', big_prefix=16400),
                 seg_spec('burst-after-hs-64k', N=2, mode='after-hs', big_prefix=65400),
                 seg_spec('burst-after-hs-70k', N=3, mode='after-hs', big_prefix=70000, xval_stride=7),
                 seg_spec('burst-after-hs-140k', N=2, mode='after-hs', big_prefix=140000, xval_stride=7),
                 seg_spec('frag-text-L4-allcuts', family=dict(opcode=1, L=4, max_frags=3), mode='frames-allcuts'),
                 seg_spec('hs-joined-compressed-N4', N=4, mode='hs-joined-bytewise', compress=True, extra_headers_hex='5365632d576562536f636b65742d457874656e73696f6e733a207065726d6573736167652d6465666c6174650d0a'),
                 seg_spec('one-cut-anywhere-compressed-N4', N=4, mode='one-cut-anywhere', hs_window=60, compress=True, extra_headers_hex='5365632d576562536f636b65742d457874656e73696f6e733a207065726d6573736167652d6465666c6174650d0a')]
    return run_property('C02', tier, specs, 'model_checking', 'independence from TCP segmentation',
                        ENV_ASSUMPTIONS + ['reference segmentation = whole stream in one read (lemma mode: p|d1+d2)',
                                           'compressed streams: see C06 (zlib abstracted)'], RECV_FUNCS)


BUILD_FUNCS = ['lomond.websocket.WebSocket.send_text/send_binary/send_json/send_ping/send_pong/close/_send_close',
               'lomond.session.WebsocketSession.send/write', 'lomond.frame.Frame.build/to_bytes/build_close_payload',
               'lomond.mask.mask_payload (+ _XOR_TABLE lemma)']


def build_spec(kind, lens):
    return Spec('build-' + kind, 'checks.build', 'run_build', dict(kind=kind, lens=lens, xval_stride=3),
                what='one %s call on a connected WebSocket; symbolic payload content / code points / close code, '
                     'symbolic 4-byte masking key from os.urandom; length chosen by a solver variable from %s; written bytes '
                     'decoded by the RFC 6455 5.2 server-side decoder' % (kind, lens), chunk=40)


def c03(tier):
    from checks import build
    q = tier == 'quick'
    lens = build.LENS_QUICK + [65535, 65536] if q else build.LENS_THOROUGH
    specs = [build_spec('binary', lens),
             build_spec('text', [0, 1, 2] if q else [0, 1, 2, 3]),
             build_spec('ping', build.CTRL_LENS + [126, 127]),
             build_spec('pong', build.CTRL_LENS + [126]),
             build_spec('close', [0, 1, 3, 122, 123, 124, 125, 200]),
             build_spec('close_text', [0, 1, 2]),
             build_spec('close_text_long', [30, 31, 41, 42, 61, 62, 123, 124]),
             build_spec('compressed', [0]),
             build_spec('types', [0]),
             build_spec('json', [0])]
    LW = ('payload = a byte string whose LENGTH is a solver variable L and whose content is one abstract block (len() symbolic; the [r::4] slicing, '
          'translate and slice assignment of mask_payload recorded per residue class): header announces exactly L in the shortest form, payload is the '
          'caller block XOR key lane-wise (symbolic byte x: all 256 values), for EVERY L at once; ')
    for via, maxlen, what in [
            ('frame_build', (1 << 63) - 1, 'Frame.build directly, symbolic FIN/RSV1, 6 opcodes, 0 <= L < 2^63'),
            ('send_binary', 1 << 17, 'send_binary -> session.send -> Frame.to_bytes -> build, 0 <= L <= 2^17 (every length across the 125/126 and 65535/65536 boundaries)'),
            ('send_ping', 1 << 17, 'send_ping: accepted iff L <= 125'), ('send_pong', 1 << 17, 'send_pong: accepted iff L <= 125'),
            ('close', 1 << 17, 'close(symbolic 16-bit code, reason of L bytes): accepted iff L <= 123; payload = code ++ reason')]:
        specs.append(Spec('anylen-' + via, 'checks.buildlen', 'run_buildlen', dict(via=via, maxlen=maxlen, xval_stride=1), what=LW + what))

    def pre():
        from symlomond import symdata as sd
        import lomond.mask as M
        bad = sd._xor_lemma(M._XOR_TABLE)
        st = dict(sd.XOR_LEMMA_STATS)
        return dict(obligations=st['obligations'], discharged=st['discharged'], failed=[], limits=[],
                    what='lemma: for every row r and byte x, _XOR_TABLE[r][x] == r ^ x (one z3 query per row on the ITE '
                         'encoding of the real table); rows where it fails are encoded exactly, so a wrong entry stays visible',
                    bad_rows=bad, samples=['row r: forall x. ITE(_XOR_TABLE[r])[x] == r xor x'])
    # a frame that the library hands to the socket in several pieces must still arrive as ONE frame when another thread writes meanwhile
    specs.append(sched_spec('big-frame-vs-pong', ['C03', 'C11'], [['send_big'], ['pong']], 1,
                            'deterministic scheduler of C11/C12: thread 1 sends ONE 70 000-byte binary message, thread 2 writes an automatic Pong at any '
                            'statement boundary (also between the pieces of a split write): the wire must decode as whole frames, each unmasking to what its caller passed'))
    specs.append(sched_spec('big-frame-vs-sender', ['C03', 'C11'], [['send_big'], ['send_text']], 1,
                            'the same with an application send_text on the second thread'))
    from checks.common import lomond
    lomond()
    return run_property('C03', tier, specs, 'model_checking', 'client frames valid & round-trip',
                        ENV_ASSUMPTIONS + ['content is symbolic at the first/last 8 bytes of long payloads, a fixed pattern in between '
                                           '(the 4-lane XOR structure is periodic); content-level checks cover the listed lengths only',
                                           'anylen-* explorations: the payload length is a solver variable (every length at once) and the content one abstract '
                                           'block; they assume that bytearray slicing/translate/bytes() treat a buffer of any length uniformly (CPython, not '
                                           'encoded); replay above 2^17 bytes (Frame.build only) uses a bytearray whose __len__ reports L over a short content',
                                           'json.dumps is not encoded (C function): send_json is checked to route concrete objects through one text frame',
                                           'compression: one exploration with permessage-deflate negotiated (abstract zlib of C06): RSV1 iff requested; histories are C06'],
                        BUILD_FUNCS, pre=pre)


LIFE_FUNCS = RECV_FUNCS + ['lomond.session.WebsocketSession._connect/_connect_sock/_close_socket/_send_request',
                          'lomond.websocket.WebSocket.close/_on_close/on_disconnect/send_text/send_binary/send_ping']


def life_spec(name, tags, what, **P):
    P = dict(P)
    P['tags'] = list(tags)
    P.setdefault('xval_stride', 53)
    expect = tuple(P.pop('must_reach', ()))
    return Spec(name, 'checks.life', 'run_life', P, what=what, expect_classes=expect)


def c08(tier):
    q = tier == 'quick'
    tags = ['C08']
    acts = ['send_text', 'close', 'send_ping']
    specs = [
        life_spec('close-orders-K2', tags,
                  'server: <=2 frames from {Text, Ping, Close(code,reason symbolic), empty Close} chosen by solver variables, then EOF; '
                  'application: <=2 actions from {send_text, close(code,reason symbolic), send_ping} at solver-chosen events (incl. Connecting/Connected); '
                  'oracle: close-handshake monitor over the ordered wire/event/call log',
                  server=dict(kind='grammar', K=2 if q else 3, alphabet=['text', 'ping', 'close', 'close0']),
                  app=dict(actions=acts, max_actions=2)),
        life_spec('close-orders-compressed', tags,
                  'the same with permessage-deflate negotiated (compress=True offered and accepted; abstract zlib): compressed application sends '
                  '(send_text / send_binary, default compress=True) obey the closing handshake like any other frame',
                  server=dict(kind='grammar', K=2, alphabet=['text', 'close', 'close0']), compress=True,
                  app=dict(actions=['send_text', 'close', 'send_binary'], max_actions=2)),
        life_spec('close-then-traffic', tags,
                  'application closes at a solver-chosen event, server keeps sending <=3 frames (Text/Ping/fragmented Binary/Close): '
                  'delivery continues until the server Close; one more application action',
                  server=dict(kind='grammar', K=3, alphabet=['text', 'frag', 'close'], may_stop=True),
                  app=dict(actions=['close', 'send_binary'], max_actions=2, only_events=['connected', 'ready', 'text', 'binary', 'closing'])),
        life_spec('close-max-reason', tags,
                  'the longest legal Close (2-byte code + 123-byte reason) in both directions: server Close echoed, application close() accepted',
                  server=dict(kind='grammar', K=2, alphabet=['text', 'close123']),
                  app=dict(actions=['close_long', 'send_text'], max_actions=1)),
        life_spec('close-write-fault', tags,
                  'as close-orders with one symbolic socket-write fault (any sendall after the upgrade request)',
                  server=dict(kind='grammar', K=1, alphabet=['text', 'close']),
                  app=dict(actions=['close', 'send_text'], max_actions=2),
                  fault=dict(ops=['sendall'], kinds=['oserror'], max=1, skip={'sendall': 1})),
    ]
    specs.append(life_spec('close-inside-unfinished-message', tags,
                           'the server starts a fragmented message (FIN=0) that it never finishes and then sends its Close - first, or in reply to the '
                           'application\'s close(): a Close frame may stand inside a fragmented message (RFC 6455 5.4), the handshake completes as usual',
                           server=dict(kind='grammar', K=3, alphabet=['text', 'frag_open', 'close'], close_is_last=True),
                           app=dict(actions=['close', 'send_text'], max_actions=1)))
    specs.append(life_spec('close-timeout-options', tags,
                           'both close directions with connect(close_timeout=...) drawn from {None, 0, 0.0 (documented: disabled), 30.0}: the server answers '
                           'without delay (no virtual time passes), so no value may cut the handshake short',
                           server=dict(kind='grammar', K=2, alphabet=['text', 'close']),
                           app=dict(actions=['close', 'send_text'], max_actions=1),
                           connect_options=[{}, {'close_timeout': 0}, {'close_timeout': 0.0}, {'close_timeout': 30.0}]))
    if not q:
        specs.append(life_spec('close-raw-N3', tags, 'raw symbolic server bytes (N=3) with application close/send at any event',
                               server=dict(kind='raw', N=3), app=dict(actions=['close', 'send_text'], max_actions=2)))
    return run_property('C08', tier, specs, 'model_checking', 'closing handshake', ENV_ASSUMPTIONS + [
        'single-threaded histories only (multi-threaded close is C12)',
        'frames the server sends after its own Close are a don\'t-care region'], LIFE_FUNCS)


def c07(tier):
    q = tier == 'quick'
    tags = ['C07']
    specs = [
        life_spec('raw-N%d-react' % (2 if q else 3), tags,
                  'handshake variant (valid/200/no-upgrade/wrong-accept/garbage/oversize) x raw symbolic frame bytes x transport end '
                  '(EOF/socket error/non-socket exception) x <=2 application reactions (send_text/send_ping/close) at solver-chosen events; '
                  'monitor automaton over event names + bounded-step termination',
                  server=dict(kind='raw', N=2 if q else 3), handshake='sym', end='sym',
                  app=dict(actions=['send_text', 'close', 'send_ping'], max_actions=2), max_waits=40),
        life_spec('connect-faults', tags,
                  'resolve/socket/connect/request-write/recv/wait faults (2 faults, socket error or arbitrary exception), 2 resolved addresses',
                  server=dict(kind='grammar', K=1, alphabet=['text', 'close0']), n_addrs=2,
                  fault=dict(ops=['getaddrinfo', 'socket', 'connect', 'sendall', 'recv', 'wait', 'shutdown', 'close'],
                             kinds=['oserror', 'exception'], max=2),
                  app=dict(actions=['close'], max_actions=1), max_waits=40),
        life_spec('close-then-silence', tags,
                  'application closes at a solver-chosen event (incl. before Ready) and/or the server sends a Close; the server then stays silent '
                  '(no EOF): close_timeout must end the iteration (virtual clock)',
                  server=dict(kind='grammar', K=2, alphabet=['text', 'close']), end='silence', silent_waits=10 ** 6,
                  connect=dict(poll=1.0, close_timeout=3.0),
                  app=dict(actions=['close', 'close_default'], max_actions=1, only_events=['connecting', 'connected', 'ready', 'text', 'closing']),
                  max_waits=30),
        life_spec('full-read-then-silence', tags,
                  'a read that fills the 64 KiB receive buffer exactly (a binary frame of 65 536 wire bytes, optionally a Text before/after), then a silent '
                  'server with close_timeout and ping_timeout armed; the application may close(): a timeout must end the iteration - the loop must not '
                  'sit in a blocking recv() for bytes that are not there',
                  server=dict(kind='grammar', K=2, alphabet=['full_buffer', 'text'], may_stop=False), end='silence', silent_waits=10 ** 6,
                  connect=dict(poll=1.0, close_timeout=3.0, ping_timeout=5.0, ping_rate=0),
                  app=dict(actions=['close'], max_actions=1, only_events=['ready', 'binary']), max_waits=30, xval_stride=3),
        life_spec('close-write-fault-then-silence', tags,
                  'as close-then-silence, with a symbolic fault on any write after the upgrade request (the Close frame itself may fail to be written): '
                  'the close timeout must still end the iteration',
                  server=dict(kind='grammar', K=1, alphabet=['text']), end='silence', silent_waits=10 ** 6,
                  connect=dict(poll=1.0, close_timeout=3.0),
                  app=dict(actions=['close', 'close_default'], max_actions=1, only_events=['connected', 'ready', 'text']),
                  fault=dict(ops=['sendall'], kinds=['oserror', 'exception'], max=1, skip={'sendall': 1}), max_waits=30),
        life_spec('pong-then-silence', tags,
                  'ping_timeout armed: the server upgrades, sends up to 2 frames from {Pong, Text} and then stays silent (no EOF): the ping '
                  'timeout must end the iteration (virtual clock starting at an epoch-sized value)',
                  server=dict(kind='grammar', K=2, alphabet=['pong', 'text']), end='silence', silent_waits=10 ** 6,
                  connect=dict(poll=1.0, ping_rate=1.0, ping_timeout=3.0), max_waits=30),
        life_spec('timers-vs-trickle', tags,
                  'close_timeout / ping_timeout armed while the server keeps the socket readable WITHOUT completing a message: after <=1 Text/Pong it '
                  'trickles one byte of an unfinished fragment every 0.5 s (poll = 1 s) for 140 s; the application may close(); the timeout must end the '
                  'iteration although no wait ever times out and no event is produced (virtual clock)',
                  server=dict(kind='grammar', K=2, alphabet=['text', 'pong', 'trickle']), end='silence', silent_waits=10 ** 6, cuts='bytewise',
                  arrival_gap=0.5, connect_options=[dict(poll=1.0, close_timeout=3.0), dict(poll=1.0, ping_rate=1.0, ping_timeout=3.0),
                                                    dict(poll=1.0, ping_rate=0, ping_timeout=3.0, close_timeout=2.0)],
                  app=dict(actions=['close_default'], max_actions=1, only_events=['ready', 'text', 'pong']), max_waits=60,
                  must_reach=['trickled']),
        life_spec('unicode-options', tags,
                  'WebSocket(url, agent=..., protocols=[...]) with one symbolic code point each (every plane, surrogates and controls excluded): '
                  'whatever the text, the attempt yields a well-formed event sequence (no exception escapes while the request is built)',
                  server=dict(kind='grammar', K=1, alphabet=['text']), sym_agent=True),
        life_spec('grammar-K%d-cut' % (2 if q else 3), tags,
                  'server grammar frames, transport cut after a symbolic number of bytes of the whole stream (incl. inside the handshake)',
                  server=dict(kind='grammar', K=2 if q else 3, alphabet=['text', 'ping', 'close', 'frag']), cut_anywhere=True, end='sym',
                  ends=['eof', 'error']),
        life_spec('tls-transport-ends', tags,
                  'wss:// connection (TLS socket of the stub ssl module): server grammar frames, the transport ends after a symbolic number of bytes by EOF, '
                  'a socket error or a TLS-LEVEL error reported by the ssl module (ssl.SSLError, e.g. TCP dropped without close_notify), which then '
                  'persists on every later read: one terminal event, iteration ends',
                  server=dict(kind='grammar', K=2, alphabet=['text', 'ping', 'close']), url='wss://example.com/', cut_anywhere=True, end='sym',
                  ends=['eof', 'error', 'tls-error'], max_waits=40),
    ]
    return run_property('C07', tier, specs, 'model_checking', 'well-formed finite event sequence', ENV_ASSUMPTIONS + [
        'termination is a bounded-step obligation: exceeding the selector-wait budget after the transport ended is a violation',
        'deeper histories than the stated bounds are outside the claim ("longer ones randomly" is sampling and is not done)'],
        LIFE_FUNCS)


def c09(tier):
    q = tier == 'quick'
    tags = ['C09']
    allops = ['getaddrinfo', 'socket', 'connect', 'sendall', 'recv', 'wait', 'shutdown', 'close']
    specs = [
        life_spec('single-fault', tags,
                  'server sends Text, Ping, fragmented Binary, (Close); one symbolic fault (socket error / arbitrary exception) at any socket call; '
                  'application may send/close once',
                  server=dict(kind='fixed', hex='810161' + '890170' + '020162' + '800163' + ('' if q else '8800')),
                  fault=dict(ops=allops, kinds=['oserror', 'exception'], max=1),
                  app=dict(actions=['send_text', 'close'], max_actions=1)),
        life_spec('dead-socket', tags,
                  'a read / selector-wait failure that persists (every later call fails too): the iterator must still end',
                  server=dict(kind='fixed', hex='810161' + '890170' + '810162'),
                  fault=dict(ops=['recv', 'wait'], kinds=['oserror', 'exception'], max=1, sticky=['recv', 'wait']), max_waits=40),
        life_spec('cut-at-every-offset', tags,
                  'EOF or socket error after every byte offset of handshake+frames (offset is a solver variable)',
                  server=dict(kind='fixed', hex='810161' + '8902' + '7071' + '02026263' + '80026465' + '817e0003616263'),
                  cut_anywhere=True, end='sym', ends=['eof', 'error', 'exception']),
        life_spec('all-addresses', tags,
                  '3 resolved addresses, up to 3 faults among socket()/connect(): every address must be tried before ConnectFail',
                  server=dict(kind='fixed', hex='810161'), n_addrs=3,
                  fault=dict(ops=['socket', 'connect'], kinds=['oserror'], max=3)),
        life_spec('close-handshake-faults', tags,
                  'server-initiated and client-initiated close with one fault at any socket call',
                  server=dict(kind='grammar', K=2, alphabet=['text', 'close']),
                  fault=dict(ops=['sendall', 'recv', 'wait', 'shutdown', 'close'], kinds=['oserror', 'exception'], max=1, skip={'sendall': 1}),
                  app=dict(actions=['close', 'send_ping'], max_actions=1)),
    ]
    specs.append(life_spec('close-write-fault-then-silence', tags,
                           'the write of a Close frame (application close() at a solver-chosen event, or the echo of a server Close) fails with a '
                           'one-shot socket error / exception and the peer then stays silent (no EOF): the iterator must not wait forever - '
                           'close_timeout ends it (virtual clock)',
                           server=dict(kind='grammar', K=1, alphabet=['text', 'close']), end='silence', silent_waits=10 ** 6,
                           connect=dict(poll=1.0, close_timeout=3.0),
                           app=dict(actions=['close', 'close_default'], max_actions=1, only_events=['connected', 'ready', 'text']),
                           fault=dict(ops=['sendall'], kinds=['oserror', 'exception'], max=1, skip={'sendall': 1}), max_waits=30))
    specs.append(life_spec('cut-at-every-offset-wss', tags,
                           'wss:// connection: EOF, socket error or a TLS-level error (ssl.SSLError from recv, persisting) after every byte offset of '
                           'handshake + frames (offset is a solver variable)',
                           server=dict(kind='fixed', hex='810161' + '8902' + '7071' + '02026263' + '80026465'), url='wss://example.com/',
                           cut_anywhere=True, end='sym', ends=['eof', 'error', 'tls-error'], max_waits=40))
    specs.append(life_spec('keepalive-write-fault', tags,
                           'ping_rate armed on a virtual clock, silent server: one symbolic fault on any write after the upgrade request - the automatic Ping, '
                           'a Pong, an application send: neither side started the closing handshake, so the connection must end with a NON-graceful '
                           'Disconnected and a closed socket',
                           server=dict(kind='grammar', K=1, alphabet=['text', 'ping']), end='silence', silent_waits=6,
                           connect=dict(poll=1.0, ping_rate=1.0),
                           fault=dict(ops=['sendall'], kinds=['oserror', 'exception'], max=1, skip={'sendall': 1}, sticky=['sendall']),
                           app=dict(actions=['send_text'], max_actions=1), max_waits=40))
    specs.append(life_spec('single-fault-compressed', tags,
                           'as single-fault with permessage-deflate negotiated (abstract zlib): the application sends go through the compressed send path',
                           server=dict(kind='fixed', hex='810161' + '890170' + '8800'), compress=True,
                           fault=dict(ops=['sendall', 'recv', 'wait', 'shutdown', 'close'], kinds=['oserror', 'exception'], max=1),
                           app=dict(actions=['send_text', 'send_binary', 'close'], max_actions=1)))
    if not q:
        specs.append(life_spec('double-fault', tags, 'all ordered pairs of faults',
                               server=dict(kind='fixed', hex='810161' + '890170' + '8800'),
                               fault=dict(ops=allops, kinds=['oserror', 'exception'], max=2),
                               app=dict(actions=['send_text', 'close'], max_actions=1)))
    specs.append(sched_spec('reset-while-another-thread-sends', tags, [['loop'], ['send_text']], 1 if q else 2,
                            'deterministic scheduler of C11/C12: thread 1 runs the real event loop and its recv fails with a socket error (connection reset) '
                            'or hits EOF while thread 2 is anywhere inside send_text - also in the middle of its sendall, holding the write lock: terminal '
                            'non-graceful Disconnected, the send returns or raises a WebSocketError, the socket ends up closed',
                            loop_end='error', hs_separate=True, xval_stride=11))
    specs.append(sched_spec('reset-arrives-during-sendall', tags, [['loop'], ['send_text']], 1 if q else 2,
                            'the same, with the event loop asleep in its selector wait (a silent server) until the connection reset arrives WHILE the '
                            'other thread is in the middle of its sendall, holding the write lock', rst_during_send=True, hs_separate=True, xval_stride=11,
                            expect_classes=['reset-while-sending']))
    return run_property('C09', tier, specs, 'model_checking', 'transport failures become events', ENV_ASSUMPTIONS + [
        'a socket whose close() call was itself made to fail (or whose shutdown() raised a non-socket exception) is not required to be closed',
        'faults inside ssl handshakes and proxy sockets are outside (C19 covers the proxy)'], LIFE_FUNCS)


def c13(tier):
    tags = ['C13']
    specs = []
    for mech in ['break', 'raise', 'gen.close', 'with', 'with-held', 'reconnect-then-close']:
        specs.append(life_spec('abandon-%s' % mech.replace('.', '-'), tags,
                               'consumer shape "%s"; server: <=3 frames from {Text, Ping, fragmented Binary, Close}; poll=0 so housekeeping Polls '
                               'are yielded from the top of the loop; the application abandons at a solver-chosen event (optionally after '
                               'a close()/send)' % mech,
                               server=dict(kind='grammar', K=2 if tier == 'quick' else 3, alphabet=['text', 'ping', 'frag', 'close']),
                               connect=dict(poll=0.0), abandon_mechanism=mech, record_selector=True,
                               app=dict(actions=['abandon', 'close'], max_actions=2)))
    for mech in ['break', 'gen.close', 'with']:
        specs.append(life_spec('abandon-%s-after-send-fault' % mech.replace('.', '-'), tags,
                               'as above with one symbolic socket-write fault before the abandonment (a failed application send / pong, then abandon)',
                               server=dict(kind='grammar', K=2, alphabet=['text', 'ping']), connect=dict(poll=1e9), abandon_mechanism=mech,
                               record_selector=True, app=dict(actions=['abandon', 'send_text'], max_actions=2),
                               fault=dict(ops=['sendall'], kinds=['oserror', 'exception'], max=1, skip={'sendall': 1})))
    for mech in ['break', 'gen.close', 'with']:
        specs.append(life_spec('abandon-%s-shutdown-fails' % mech.replace('.', '-'), tags,
                               'as above, and shutdown() of the abandoned socket raises a socket error (symbolic fault; the connection may be gone '
                               'already): close() must still release the descriptor',
                               server=dict(kind='grammar', K=2, alphabet=['text', 'ping', 'close']), connect=dict(poll=0.0), abandon_mechanism=mech,
                               record_selector=True, app=dict(actions=['abandon'], max_actions=1),
                               fault=dict(ops=['shutdown'], kinds=['oserror'], max=1)))
    for mech in ['break', 'gen.close', 'with']:
        specs.append(life_spec('abandon-%s-timers' % mech.replace('.', '-'), tags,
                               'ping_timeout, ping_rate and close_timeout armed on a virtual clock, the server sends <=2 frames from {Text, Pong} and then '
                               'stays silent: the application abandons at a solver-chosen event, among them Unresponsive and the Polls/Pongs '
                               'around it, optionally after close()',
                               server=dict(kind='grammar', K=2, alphabet=['text', 'pong']), end='silence', silent_waits=10 ** 6,
                               connect=dict(poll=1.0, ping_rate=1.0, ping_timeout=3.0, close_timeout=2.0), abandon_mechanism=mech,
                               record_selector=True, app=dict(actions=['abandon', 'close'], max_actions=2), max_waits=30,
                               must_reach=['abandon@unresponsive']))
    specs.append(life_spec('abandon-break-compressed', tags,
                           'permessage-deflate negotiated; the application abandons at a solver-chosen event, optionally after a compressed send or close()',
                           server=dict(kind='grammar', K=2, alphabet=['text', 'ping', 'close']), connect=dict(poll=0.0), abandon_mechanism='break',
                           compress=True, record_selector=True, app=dict(actions=['abandon', 'send_text', 'close'], max_actions=2)))
    for mech in ['break', 'gen.close']:
        specs.append(life_spec('abandon-%s-bad-streams' % mech.replace('.', '-'), tags,
                               'handshake variant (valid/200/no-upgrade/wrong-accept/garbage/oversize) x 2 raw symbolic frame bytes (protocol errors) x '
                               'transport end: the application abandons at a solver-chosen event, among them Rejected and ProtocolError',
                               server=dict(kind='raw', N=2), handshake='sym', end='sym', ends=['eof', 'error'], abandon_mechanism=mech,
                               record_selector=True, app=dict(actions=['abandon'], max_actions=1), max_waits=40,
                               must_reach=['abandon@rejected', 'abandon@protocol_error']))
    specs.append(sched_spec('abandon-while-sending', tags, [['loop'], ['send_text']], 2,
                            'thread 1 runs the real event loop and abandons it (generator.close()) at the first Poll after Ready while thread 2 is anywhere '
                            'inside send_text - also in the middle of its sendall, holding the write lock (deterministic scheduler, schedule = solver variables): '
                            'the socket must end up closed', loop_abandon_at='poll', hs_separate=True, xval_stride=11))
    return run_property('C13', tier, specs, 'model_checking', 'abandoning the loop releases the socket', ENV_ASSUMPTIONS + [
        'CPython reference counting finalises a dropped generator immediately (break/raise rely on it); other interpreters are outside'],
        LIFE_FUNCS)


HS_FUNCS = ['lomond.websocket.WebSocket.__init__/State.__init__/build_request/on_response/process_extensions/feed',
            'lomond.response.Response.__init__/get/get_list', 'lomond.stream.WebsocketStream.feed',
            'lomond.parser.Parser.feed (_ReadUntil, check_length)', 'lomond.frame_parser.FrameParser.parse',
            'lomond.extension.parse_extension', 'lomond.compression.Deflate.from_options']


def c10(tier):
    q = tier == 'quick'
    S = lambda name, func, what, **P: Spec(name, 'checks.handshake', func, dict(P, xval_stride=P.get('xval_stride', 23)), what=what,
                                           xval=not (P.get('sym_key') or func == 'run_fresh_key'))
    specs = [
        S('request', 'run_request', 'os.urandom(16) = 16 symbolic bytes; build_request() for a grid of URL shapes x compress x protocols x custom headers; '
          'independent request reader + reference base64 DEcoder: key header decodes to exactly the drawn bytes, for all 2^128 keys'),
        S('reply-status', 'run_reply', 'plain reply, symbolic holes: 3 status bytes (ANY byte values), 9-byte Upgrade value (token chars), '
          '28-byte Sec-WebSocket-Accept value (base64 chars); Ready <=> status==101 and lower(upgrade)==websocket and '
          'accept == b64(sha1(key+GUID)) exactly', templates=['plain'], sym_case=False),
        S('reply-templates', 'run_reply', 'status fixed to 101; template (header order / duplicates / obs-fold / whitespace / missing headers) and header-name '
          'case chosen by solver variables; Upgrade and Accept values are symbolic holes', sym_status=False),
        S('reply-symkey', 'run_reply', 'symbolic key: sha1 is an uninterpreted 20-byte vector D(key); status and holes symbolic',
          sym_key=True, templates=['plain', 'folded-accept'], sym_case=False),
        S('reply-values', 'run_reply', 'correct reply; the Sec-WebSocket-Extensions / -Protocol VALUES in 9 x 3 spellings (parameters, optional '
          'whitespace around ";" "=" and the whole value, tab, quoted parameter value): Ready must report protocol chat and permessage-deflate and '
          'enable compression', sym_status=False, sym_case=False, templates=['plain', 'reordered'],
          ext_values=['permessage-deflate', 'permessage-deflate; server_max_window_bits=12', 'permessage-deflate ; server_max_window_bits=12',
                      'permessage-deflate\t;\tclient_max_window_bits = 10', 'permessage-deflate;server_no_context_takeover',
                      '  permessage-deflate  ', 'permessage-deflate; client_no_context_takeover ; server_max_window_bits="10"',
                      'permessage-deflate ;server_no_context_takeover', 'permessage-deflate\t; client_no_context_takeover'],
          proto_values=['chat', '  chat', 'chat\t ']),
        S('reply-upgrade-specials', 'run_reply', 'plain reply, status 101, 9-byte Upgrade value over token characters PLUS the other visible ASCII characters '
          '({ } % ! # $ & \' * + . ^ _ ` | ~): whatever the value, an incorrect reply ends in Rejected (never in an escaped exception or a bare Disconnected)',
          templates=['plain'], sym_status=False, sym_case=False, upgrade_class='token+'),
        S('reply-first-read', 'run_reply', 'correct reply (status fixed, holes symbolic) whose FIRST read delivers only 1..6 bytes (solver variable), the rest in one read: '
          'the verdict must be the same as for one read', sym_status=False, sym_case=False, templates=['plain', 'folded-accept'], cuts='first-small'),
        S('reply-wide-tokens', 'run_reply_wide', 'otherwise correct reply in which ONE of status / Upgrade value / Accept value is a hole of symbolic bytes '
          '1-2 bytes LONGER than the correct token, every byte >= 0x21 incl. all non-ASCII bytes (UTF-8 encoded Unicode digits, case-folding '
          'look-alikes such as U+212A, Unicode white space such as U+00A0/U+3000): never Ready, always Rejected', xval_stride=7),
        S('fresh-key', 'run_fresh_key', 'one WebSocket object connect()ed 3 times; os.urandom(16) symbolic per call; the key of request i must decode to the draw made for attempt i; a reply recorded from attempt 1 is optionally replayed later', xval_stride=2),
        S('oversize', 'run_oversize', 'header block of 16384-3..16384+3 bytes, terminated or not, one read or cut at a symbolic position around the bound'),
    ]
    if not q:
        specs.append(S('reply-bytewise', 'run_reply', 'reply holes delivered byte at a time', cuts='bytewise',
                       templates=['plain', 'folded-upgrade', 'padded']))
        specs.append(S('reply-all', 'run_reply', 'full product: symbolic status x all templates x name case'))
    return run_property('C10', tier, specs, 'model_checking', 'Ready only for a correct upgrade reply', ENV_ASSUMPTIONS + [
        'SHA-1 is uninterpreted (congruence only); replay uses the real one',
        'urlparse is library code: URL shapes are a concrete grid',
        'Upgrade/Accept holes range over token / base64 characters (structure characters CR LF SP : , are exercised by the templates instead)'],
        HS_FUNCS)


def c19(tier):
    q = tier == 'quick'
    S = lambda name, what, **P: Spec(name, 'checks.proxy', 'run_proxy', dict(P, xval_stride=P.get('xval_stride', 11)), what=what)
    specs = [
        S('status', '9 proxy/URL configurations x proxy answer = "HTTP/1.1 " + 3 SYMBOLIC status bytes (any values) + terminated tail '
          '(with/without headers); one read', tails=['ok', 'ok-headers']),
        S('status-wide', 'proxy answer whose status token is 4 SYMBOLIC bytes (any values >= 0x21: "+200", "0200", "2_00", non-ASCII digits, ...): '
          'it is not status 200, the tunnel must not be used', tails=['ok', 'ok-headers'], status_len=4, configs=[0, 1]),
        S('status-line-separators', 'proxy answer "HTTP/1.1" <b1> "200" <b2> "Connection established": the two separator bytes are SYMBOLIC (any '
          'value but CR/LF): with SP SP the verdict follows the status; with any non-blank byte (letters, digits, 0x1C-0x1F, 0x80+...) there is no status 200 and '
          'nothing may be written; HT/VT/FF are a don\'t-care region', sym_seps=True, sym_status=False, configs=[0], tails=['ok']),
        S('tails', '9 configurations x answer tail in {terminated, with headers, unterminated+EOF, empty, >16KiB unterminated, >16KiB terminated, '
          'garbage} (solver variables), status 200', sym_status=False),
        S('segmented', 'answers cut at a symbolic position (two recv(1024) reads), status 200', cuts='symcut', sym_status=False,
          configs=[0, 2, 3], tails=['ok', 'ok-headers', 'unterminated-eof']),
        S('bytewise', 'answer delivered one byte per recv', cuts='bytewise', configs=[0, 3], tails=['ok', 'ok-headers', 'unterminated-eof']),
        S('after-earlier-attempt', 'the checked attempt is preceded, in the same process, by an EARLIER attempt through the same proxy whose outcome '
          'is a solver variable {tunnel+session, answer cut by a socket error, answer cut by EOF, 407}: symbolic status, tails '
          '{terminated, unterminated+EOF}', prelude=True, configs=[0, 3, 11], tails=['ok', 'unterminated-eof']),
        S('faults', 'one symbolic fault (socket error / arbitrary exception) at any proxy-socket call', sym_status=False,
          configs=[0, 3, 4], tails=['ok', 'unterminated-eof'],
          fault=dict(ops=['getaddrinfo', 'socket', 'connect', 'sendall', 'recv', 'wrap_socket'], kinds=['oserror', 'exception'], max=1)),
    ]
    specs.append(sched_spec('proxy-negotiation-vs-sender', ['C19'], [['loop'], ['early_send_text']], 1,
                            'thread 1 runs the REAL connect() through a proxy (CONNECT, answer 200, upgrade, one Ping) while thread 2 calls send_text at ANY '
                            'statement boundary of the connection set-up (deterministic scheduler, schedule = solver variables): until the proxy answer has been '
                            'read, only the CONNECT request may reach the proxy socket', proxy=True, xval_stride=7))
    return run_property('C19', tier, specs, 'model_checking', 'nothing is sent to the target before the tunnel is up', ENV_ASSUMPTIONS + [
        'urlparse is library code: proxy URL shapes are a concrete grid', 'both the proxy TLS layer and the target TLS layer are stubs'],
        ['lomond.session.WebsocketSession._connect/_connect_proxy/_connect_sock/_wrap_socket/run', 'lomond.proxy.build_request/ProxyParser.parse',
         'lomond.response.Response.__init__', 'lomond.parser.Parser.feed'])


def c17(tier):
    q = tier == 'quick'
    S = lambda name, what, **P: Spec(name, 'checks.reuse', 'run_reuse', dict(P, xval_stride=P.get('xval_stride', 41)), what=what)
    base = ['eof', 'error', 'handshake-cut', 'rejected', 'connect-fail', 'close-pending', 'abandon', 'abandon-keep']
    specs = [
        S('reuse-N1_%d-N2_%d' % ((3, 2) if q else (4, 3)),
          'connection 1: %d symbolic bytes + solver-chosen abnormal ending %s; connection 2 on the same object: valid handshake + %d symbolic bytes; '
          'compared with a fresh object fed the same bytes (events, payload terms, decoded written frames, request modulo key)'
          % ((3, base, 2) if q else (4, base, 3)), N1=3 if q else 4, N2=2 if q else 3, endings=base),
        S('reuse-text-split', 'connection 1 ends inside a text message (first frame text, 4 symbolic bytes: mid UTF-8 character / mid fragment); '
          'connection 2: 3 symbolic bytes starting with a text frame', N1=4, N2=3, endings=['eof', 'error'], first1=[1]),
        S('reuse-compressed', 'connection 1 negotiated permessage-deflate with context takeover, received one compressed message and stopped inside the next; '
          'connection 2 negotiates compression again and receives the first message of a NEW deflate context (abstract zlib of C06)', N1=1, N2=2,
          endings=['compressed-then-eof']),
        S('reuse-compressed-same-parameters', 'both connections receive the SAME extension header with parameters (client_no_context_takeover): the second negotiation '
          'must honour them as the first did - the new peer resets its inflater after every message, so every message of connection 2 must come from a fresh context',
          N1=1, N2=2, endings=['compressed-then-eof'], ext_params='; client_no_context_takeover'),
        S('reuse-compressed-then-plain', 'connection 1 negotiated permessage-deflate; connection 2\'s server does not: the reused object must behave like a fresh one '
          '(no RSV1, no stale compressor)', N1=1, N2=2, endings=['compressed-then-plain']),
    ]
    specs.append(S('reuse-then-quiet-period', 'wall-clock effects: connection 1 ran with close_timeout=5 s armed (application close() pending, or plain EOF), then '
                   'connection 2 on the same object receives %d symbolic bytes and sits through 8 s of silence (virtual clock; threading.Timer callbacks fire on the '
                   'virtual clock during selector waits) before the server closes TCP: nothing armed by connection 1 may act on connection 2 (compared with a fresh object)'
                   % (2 if q else 3), N1=1 if q else 2, N2=2 if q else 3, endings=['close-pending-timed', 'eof-timed']))
    PW = ('a WebSocket that reaches its server through a proxy is connected twice: the earlier attempt\'s outcome is a solver variable {tunnel + session, '
          'proxy answer cut by a socket error, cut by EOF, 407}; the second attempt must behave exactly as the C19 oracle demands of a first attempt: ')
    specs.append(Spec('proxied-reconnect-status', 'checks.proxy', 'run_proxy_as',
                      dict(prelude=True, same_object=True, configs=[0, 3], tails=['ok', 'unterminated-eof'], xval_stride=11, **{'as': 'C17'}),
                      what=PW + '3 symbolic status bytes, terminated / unterminated answer, one read'))
    specs.append(Spec('proxied-reconnect-segmented', 'checks.proxy', 'run_proxy_as',
                      dict(prelude=True, same_object=True, configs=[0], tails=['ok', 'ok-headers'], cuts='symcut', sym_status=False, xval_stride=11, **{'as': 'C17'}),
                      what=PW + 'answer 200 cut at a symbolic position into two reads'))
    return run_property('C17', tier, specs, 'model_checking', 'each connect() starts from a clean slate', ENV_ASSUMPTIONS + [
        'reconnect chains longer than 2 follow by induction only if connection 2 leaves no more state than connection 1 could (stated, not proved)'],
        LIFE_FUNCS + ['lomond.websocket.WebSocket.reset/State.__init__', 'lomond.session.WebsocketSession.__init__'])


def c16(tier):
    q = tier == 'quick'
    S = lambda name, what, **P: Spec(name, 'checks.persist', 'run_persist', dict(P, xval_stride=P.get('xval_stride', 29)), what=what, logic=None)
    specs = [
        S('outcomes-K%d' % (3 if q else 4), 'real persist() over a real WebSocket: per attempt a solver variable picks one of 7 outcomes; random() = symbolic Real in [0,1); '
          'min_wait<=max_wait symbolic reals; exit_event.wait returns a symbolic bool; obligations: one BackOff per attempt, delay == wait argument, '
          'min_wait <= delay <= max_wait, delay == min_wait + u*min(max_wait-min_wait, 2^k) with k = consecutive attempts without Ready, pass-through by identity',
          K=3 if q else 4),
        S('growth-K%d' % (8 if q else 10), 'long runs restricted to {refused, ready-then-drop}: the window keeps doubling (2^k up to k=%d) and resets after Ready' % (8 if q else 10),
          K=8 if q else 10, outcomes=['refused', 'ready-drop'], sym_exit=False),
        S('app-close', 'the application calls close() at a solver-chosen Connecting/Connected/Ready event of any attempt: persist() must still yield one BackOff and reconnect',
          K=3, outcomes=['refused', 'ready-drop', 'ready-close'], app_close=True, sym_waits=False, sym_exit=False),
        S('long-outage', '1100 consecutive failed attempts in ONE path (host never resolves; default min_wait=5/max_wait=30, random() symbolic per attempt): the exponent of '
          'the doubling window crosses every machine-number boundary (2^63, 2^64, 2^1024): persist() must go on yielding one bounded BackOff per attempt',
          K=1100, outcomes=['resolve-fail'], sym_waits=False, sym_exit=False, xval_stride=1),
        S('through-a-proxy', 'the WebSocket reaches its server through an HTTP proxy; per attempt the proxy {refuses the TCP connection, answers 407, resets the '
          'connection during the CONNECT exchange (raw socket error), closes without an answer}: every attempt is followed by exactly one BackOff and a new attempt, '
          'no exception ends persist()', K=3, outcomes=['proxy-refused', 'proxy-407', 'proxy-reset', 'proxy-eof'], proxy=True),
        S('defaults', 'default min_wait=5/max_wait=30, 5 attempts', K=5, outcomes=['refused', 'rejected', 'ready-close'], sym_waits=False, sym_exit=False),
    ]
    return run_property('C16', tier, specs, 'model_checking', 'persist() back-off', ENV_ASSUMPTIONS + [
        'floats are idealised as reals (z3 Real; u*w is non-linear real arithmetic)', 'bound: K attempts per run'],
        ['lomond.persist.persist', 'lomond.websocket.WebSocket.connect', 'lomond.session.WebsocketSession.run'])


def c15(tier):
    q = tier == 'quick'
    S = lambda name, what, **P: Spec(name, 'checks.timers', 'run_timers', dict(P, xval_stride=P.get('xval_stride', 37)), what=what, logic=None, chunk=60)
    K = 3 if q else 4
    specs = []
    W = ('real run loop on a virtual clock (symbolic non-decreasing Real); clock advances only in the selector wait by a symbolic dt in [0, poll] '
         '(= poll iff nothing arrived); poll symbolic; %d loop iterations each with a solver-chosen server action; ' % K)
    for r in ([0, 1, 7] if q else [0, 0.5, 1, 7, 30]):
        specs.append(S('cadence-r%s' % r, W + 'ping_rate=%s, no timeouts, server actions {silent, Text}: Poll cadence p <= gap < 2p, first Poll at Ready, '
                       'automatic Pings on the ping_rate grid (timely, never twice per period, none for r=0)' % r,
                       K=K + 1, ping_rate=r, ping_timeout='none', close_timeout='none', actions=['silent', 'text'], app_close=False))
    specs.append(S('ping-timeout', W + 'ping_timeout symbolic, ping_rate=1, server actions {silent, Pong}: Unresponsive iff more than t since Ready / last Pong, '
                   'at the first housekeeping instant', K=K + 1, ping_rate=1, close_timeout='none', actions=['silent', 'pong'], app_close=False))
    specs.append(S('ping-timeout-server-pings', W + 'ping_timeout symbolic, ping_rate=1, server actions {silent, Pong, PING}: a Ping FROM the server (answered by an '
                   'automatic Pong) is not a Pong - the timeout runs from Ready / the last Pong received', K=K + 1, ping_rate=1, close_timeout='none',
                   actions=['silent', 'pong', 'ping'], app_close=False))
    specs.append(S('ping-timeout-r0', W + 'ping_timeout symbolic with ping_rate=0 (no automatic Pings): the timeout still runs from Ready / the last Pong',
                   K=K + 1, ping_rate=0, close_timeout='none', actions=['silent', 'pong'], app_close=False))
    specs.append(S('close-timeout', W + 'close_timeout symbolic, application close() at a solver-chosen event, server actions {silent, Text, Close}: forced '
                   'non-graceful Disconnected in [c, c+p] after the Close was sent, never after the handshake completed',
                   K=K + 1, ping_rate=0, ping_timeout='none', actions=['silent', 'text', 'close']))
    specs.append(S('close-repeated', W + 'close_timeout symbolic, the application calls close() at up to TWO solver-chosen events (a repeated close() '
                   'must not restart the close timeout), server actions {silent, Text}', K=K + 1, ping_rate=0, ping_timeout='none',
                   actions=['silent', 'text'], app_closes=2))
    specs.append(S('all-timers', W + 'all three timers symbolic, ping_rate=7, actions {silent, Pong, Text, Close}, application close()', K=K, ping_rate=7))
    specs.append(S('timers-vs-eventless-reads', W + 'all three timers symbolic, ping_rate=1, server actions {silent, Pong, one EVENT-LESS byte of an unfinished '
                   'fragment (the socket is readable, the wait does not time out, no message completes)}, application close(): every timer is still '
                   'checked at every wake-up', K=K, ping_rate=1, actions=['silent', 'pong', 'drip']))
    specs.append(S('no-timeouts', 'ping_timeout=None and close_timeout=None: nothing may ever be forced', K=K, ping_rate=1,
                   ping_timeout='none', close_timeout='none', actions=['silent', 'close']))
    specs.append(S('close-timeout-zero', 'close_timeout=0 disables the close timeout', K=K, ping_rate=0, ping_timeout='none', close_timeout='zero',
                   actions=['silent', 'text']))
    ST = lambda name, what, **P: Spec(name, 'checks.timerstep', 'run_step', dict(P, xval_stride=P.get('xval_stride', 5)), what=what, logic=None, chunk=60,
                                      expect_classes=(['poll'] if P.get('at_ready') else ['poll', 'unresponsive', 'close-timeout'] + (['ping'] if P.get('r') else [])))
    WS = ('INDUCTIVE STEP: one pass of the real _regular() from an ARBITRARY timer state (poll_start, next_ping, last_pong, sent_close_time, closing flag '
          'symbolic reals constrained only by the invariant every pass re-establishes; session time tau symbolic with tau_prev <= tau <= tau_prev + poll; '
          'poll, ping_timeout, close_timeout symbolic or None or 0): Poll iff due and gap in [p, 2p); Ping iff a multiple of ping_rate was passed since the '
          'last one and not closing; Unresponsive iff more than t since the last Pong; forced end iff close_timeout elapsed, and by c + p; invariant '
          're-established - so the bounded-K conclusions hold for sessions of any length; ')
    for r in ([0, 1, 7] if q else [0, 1, 2, 7, 30]):  # (fractional rates: housekeeping-step-rsym; a fractional constant makes z3 give up on ToInt)
        specs.append(ST('housekeeping-step-r%s' % r, WS + 'ping_rate=%s' % r, r=r))
    specs.append(ST('housekeeping-step-rsym', WS + 'ping_rate a SYMBOLIC real in (0, 100000] (next_ping = k*r with k a symbolic integer; non-linear)', r='sym'))
    specs.append(ST('housekeeping-step-at-ready', 'base case of the induction: the state _on_ready() leaves at session time 0 satisfies the invariant and the first '
                    'pass yields the first Poll, no Ping, no timeout', r=7, at_ready=True))
    return run_property('C15', tier, specs, 'model_checking', 'keep-alive, timeouts, polling', ENV_ASSUMPTIONS + [
        'floats idealised as reals (z3 Real/Int arithmetic with ToInt for ceil)', 'zero handler time: the clock advances only inside the selector wait',
        'ping_rate from a concrete grid (ceil(t/r)*r is non-linear in a symbolic r); bound: K loop iterations'],
        ['lomond.session.WebsocketSession.run/_regular/_check_poll/_check_auto_ping/_check_ping_timeout/_check_close_timeout/_on_ready/_on_pong/session_time',
         'lomond.websocket.WebSocket.close/send_ping', 'lomond.selectors.SelectorBase.wait/PollSelector.wait_readable'])


def c18(tier):
    q = tier == 'quick'
    S = lambda name, what, **P: Spec(name, 'checks.sel', 'run_sel', dict(P, xval_stride=P.get('xval_stride', 3)), what=what)
    specs = [
        S('drain-step-K%d' % (2 if q else 4),
          'inductive step: real SelectorBase.wait + PollSelector.wait_readable + run() loop body + _recv against an abstract transport whose state is '
          'two symbolic 24-bit counters (k bytes in the kernel, q bytes decrypted inside TLS; plain/TLS chosen by a solver variable; TLS record size symbolic); '
          '%d consecutive loop iterations from an arbitrary pre-state: blocks only when k=q=0, otherwise consumes >=1 byte in zero virtual time, '
          'count in range, no byte lost' % (2 if q else 4), K=2 if q else 4),
    ]
    N = 4 if q else 6
    specs += [
        recv_spec('deliver-same-cycle-N%d' % N, ['C18'], N=N, cuts='bytewise'),
        recv_spec('deliver-same-cycle-frag', ['C18'], family=dict(opcode=1, L=2, max_frags=3, ctrl_len=1), cuts='bytewise'),
        recv_spec('deliver-same-cycle-allcuts', ['C18'], N=4 if q else 5, cuts='sym'),
    ]
    burst = dict(long_frame=True, long_lens=[16000, 16384, 20000, 70000] if q else [16000, 16384, 20000, 65536, 70000, 140000], long_split=False)
    specs += [recv_spec('burst-behind-reply', ['C18'], reads='joined', **burst),
              recv_spec('burst-tls-records', ['C18'], reads='tls16k', **burst)]
    specs.append(recv_spec('payload-in-its-own-read', ['C18'], reads='header-own-read', long_frame=True, long_lens=[100, 4096, 5000, 65535], long_split=False, xval_stride=2))
    specs[-1].what = ('the server writes frame header and payload separately: reply, header and payload (100 B - 64 KiB) are three reads, the payload read ends '
                      'exactly at the frame end and the next frame arrives in a later read: ' + specs[-1].what)
    specs[-3].what = ('the upgrade reply and a burst of 16-70 KB behind it arrive in ONE read (plain transport, as much as the 64 KiB buffer takes): ' + specs[-2].what)
    specs[-2].what = ('16 KiB TLS-like records, the upgrade reply split over two records (split position = solver variable), full records behind it: ' + specs[-1].what)
    stalled = sched_spec('loop-vs-stalled-sender', ['C18'], [['loop'], ['send_stalled']], 1,
                         'thread 1 runs the REAL event loop (a Ping is available to read); thread 2 is inside send_text with its sendall held up by flow '
                         'control until the loop has read (the peer does not read while it is pushing): the loop must go on receiving - deliver the Ping, write '
                         'the Pong after the send completes - and must not wait for the sender (no deadlock under any schedule)', xval_stride=7, hs_separate=True, expect_classes=['stalled'])
    for s_ in specs[1:]:
        s_.what = ('real parser pipeline (no stubbed feed): ' + s_.what + '; obligation: at every read boundary, every message whose last byte has '
                   'arrived has been delivered, and its Pong written, before the loop waits on the selector again')
    specs.append(stalled)
    return run_property('C18', tier, specs, 'model_checking', 'available data is drained without waiting', ENV_ASSUMPTIONS + [
        'REDUCED SCOPE: only the loop\'s own decision logic is decided (inductive step on an abstract transport); kernel selector semantics '
        '(select.poll/kqueue/select), real ssl.SSLSocket buffering and loopback TCP/TLS runs are executions, not solver queries, and are outside',
        'in the counter abstraction WebSocket.feed is replaced by "consume everything"; that every byte handed to feed is parsed and delivered in the same cycle '
        'is itself checked on the real pipeline by the deliver-same-cycle explorations (bounded stream length)',
        'TLS recv_into clamps the requested length to the buffer (as _ssl does); q is arbitrary (over-approximates real TLS, where q <= one record)'],
        ['lomond.selectors.SelectorBase.wait', 'lomond.selectors.PollSelector.__init__/wait_readable', 'lomond.session.WebsocketSession.run (loop body)',
         'lomond.session.WebsocketSession._recv'])


def c06(tier):
    q = tier == 'quick'
    S = lambda name, what, **P: Spec(name, 'checks.deflate', 'run_deflate', dict(P, xval_stride=P.get('xval_stride', 61)), what=what, chunk=60)
    K = 2 if q else 3
    specs = [
        S('negotiation', 'extension reply built from solver variables: server/client_max_window_bits each in {absent, 8..15 as ONE symbolic digit term, quoted, padded, '
          '7, 16, non-numeric, empty}, both no_context_takeover flags, negotiated or not; one application send: invalid parameters => Rejected and never Ready; '
          'otherwise the reference peer applying RFC 7692 to the negotiated parameters (window!) inflates what the client wrote',
          incoming=0, sends=1, send_in_ready=True),
        S('send-history', '%d application sends (compressed text / compressed binary / compress=False, chosen by solver variables) on one connection; both takeover flags '
          'symbolic; client window symbolic 8..15: the reference peer inflater (context kept across messages unless client_no_context_takeover) must restore every message' % (K + 1),
          s_spellings=['absent'], c_spellings=['absent', 'plain'], incoming=0, sends=K + 1, send_in_ready=True, sym_negotiate=False),
        S('recv-single', 'one incoming message: compressed text/binary, uncompressed, or damaged; 1..3 fragments with EVERY fragment boundary (solver variables) and an optional '
          'Ping between fragments; flags and server window symbolic', s_spellings=['absent', 'plain'], c_spellings=['absent'], incoming=1, sends=0,
          max_frags=3 if not q else 2, sym_negotiate=False),
        S('recv-history', '%d incoming messages with context takeover across messages (server deflater keeps its window unless server_no_context_takeover), <=2 fragments, '
          'mixed with uncompressed and damaged messages' % K, spellings=['absent'], incoming=K, sends=0, max_frags=2, cut_options='few', sym_negotiate=False),
        S('both-directions', 'incoming messages interleaved with application sends at solver-chosen events (two contexts in use at once)',
          spellings=['absent'], incoming=2, sends=2, max_frags=1, sym_negotiate=False, sym_flags=False, flags=(False, False), bad=False),
        S('both-directions-flags', 'the same with both no_context_takeover flags symbolic (asymmetric combinations included): a send must not disturb the '
          'receive context and vice versa', spellings=['absent'], incoming=2, sends=1, max_frags=1, sym_negotiate=False, bad=False),
        S('not-negotiated', 'compress offered but the server does not negotiate: RSV1 must never be set, RSV1 from the server is a violation', spellings=['absent'],
          incoming=1, sends=2, send_in_ready=True, bad=False, sym_negotiate=False, negotiate=False, sym_flags=False, max_frags=1),
        Spec('renegotiation-plain', 'checks.reuse', 'run_reuse', dict(N1=1, N2=2, endings=['compressed-then-plain'], xval_stride=3),
             what='one object, two connections: the first negotiates permessage-deflate, the second does not; on the second the client must not set RSV1 '
                  '(compared with a fresh object; harness of C17)'),
        Spec('renegotiation-compressed', 'checks.reuse', 'run_reuse', dict(N1=1, N2=2, endings=['compressed-then-eof'], xval_stride=3),
             what='one object, two connections, both negotiate permessage-deflate with context takeover: a NEW peer inflater must restore what the second '
                  'connection sends (harness of C17)'),
    ]
    return run_property('C06', tier, specs, 'model_checking', 'permessage-deflate used as RFC 7692 prescribes', ENV_ASSUMPTIONS + [
        'REDUCED SCOPE: DEFLATE/INFLATE themselves are not encoded (zlib is C code with data-dependent loops); losslessness of zlib is trusted. zlib is replaced by an executable '
        'abstract streaming codec with explicit (generation, sequence) context tags and window tags; what is decided is lomond\'s USE of the zlib API for the negotiated parameters',
        'axioms: an inflater accepts a message iff it needs no history (seq 0) or the inflater consumed exactly the preceding messages of that deflater, and its window is not smaller',
        'a 8-bit window is treated as 9 (zlib cannot deflate with 8; zlib-based peers inflate it)', 'payload-content effects (compressible vs not) are outside'],
        ['lomond.compression.Deflate.__init__/from_options/get_wbits/compress/decompress/reset_*', 'lomond.extension.parse_extension',
         'lomond.websocket.WebSocket.process_extensions/send_text/send_binary', 'lomond.session.WebsocketSession.send_compressed',
         'lomond.stream.WebsocketStream.set_compression/feed', 'lomond.message.Message.build/decompress_frames',
         'lomond.frame_parser.FrameParser.enable_compression/read_text', 'lomond.frame.CompressedFrame.validate_reserved_bits'])


SCHED_FUNCS = ['lomond.websocket.WebSocket.send_text/send_binary/send_ping/send_pong/close/_send_close/_on_close',
               'lomond.session.WebsocketSession.write/send/send_compressed/_send_pong/_check_auto_ping', 'lomond.frame.Frame.build',
               'lomond.mask.mask_payload', 'lomond.compression.Deflate.compress']
SCHED_ASSUME = ['real threads under a deterministic baton scheduler; preemption points = source lines of lomond files (sys.settrace) + the middle of sendall; '
                'bytecode-granularity switches, more than PB preemptions, free-threaded builds and zlib-internal locking are outside',
                'the schedule is a vector of solver variables explored path by path; z3 decides the data dimension and the wire/decoder obligations per schedule']


def sched_spec(name, tags, threads, pb, what, expect_classes=(), **P):
    P = dict(P, threads=threads, pb=pb, tags=list(tags), xval_stride=P.get('xval_stride', 17))
    return Spec(name, 'checks.sched', 'run_sched', P, what='threads %s, <=%d preemptions; %s' % (threads, pb, what), chunk=40,
                expect_classes=expect_classes)


def c11(tier):
    q = tier == 'quick'
    tags = ['C11']
    W = 'wire must decode as whole frames carrying exactly the messages sent, per-thread order preserved'
    specs = [
        sched_spec('two-senders', tags, [['send_text'], ['send_binary']], 2, W),
        sched_spec('sender-vs-loop', tags, [['send_text'], ['pong', 'auto_ping']], 2, W + ' (event loop pong/ping vs application send)'),
        sched_spec('sender-vs-real-loop', tags, [['loop'], ['send_text']], 2,
                   W + ' (thread 1 runs the REAL event loop: ws.connect() receives a Ping and writes its automatic Pong while thread 2 sends)', xval_stride=5),
        sched_spec('big-message-vs-sender', tags, [['send_big'], ['send_text']], 1,
                   W + '; thread 1 sends ONE 70 000-byte binary message (should the library split it into several frames/writes, no other '
                       'thread\'s data frame may stand between them: the peer reassembles per RFC 6455 5.4)'),
        sched_spec('three-messages-compressed', tags, [['send_text', 'send_text'], ['send_binary']], 1,
                   W + '; one thread sends two compressed messages with another thread\'s message possibly between them (shared context)',
                   compress=dict(client_no_takeover=False)),
        sched_spec('two-senders-compressed', tags, [['send_text'], ['send_binary']], 1,
                   W + '; with permessage-deflate and context takeover the reference peer must inflate in wire order',
                   compress=dict(client_no_takeover=False)),
        sched_spec('compressed-vs-uncompressed-sender', tags, [['send_text'], ['send_binary_raw']], 2,
                   W + '; permessage-deflate negotiated, thread 1 sends compressed, thread 2 sends with compress=False; preemption also on return '
                       'from zlib\'s compress(), before flush() is called: the reference peer must restore exactly what each thread sent',
                   compress=dict(client_no_takeover=False)),
        sched_spec('two-senders-compressed-no-takeover', tags, [['send_text'], ['send_binary']], 1,
                   W + '; permessage-deflate with client_no_context_takeover: the peer resets its inflater after every message, so every message on the wire '
                       'must have been deflated from a fresh context', compress=dict(client_no_takeover=True)),
    ]
    if not q:
        specs += [sched_spec('three-senders', tags, [['send_text'], ['send_binary'], ['send_ping']], 2, W),
                  sched_spec('two-by-two', tags, [['send_text', 'send_binary'], ['send_binary', 'send_text']], 2, W),
                  sched_spec('two-senders-pb3', tags, [['send_text'], ['send_binary']], 3, W)]
    return run_property('C11', tier, specs, 'model_checking', 'concurrent senders never corrupt the wire', ENV_ASSUMPTIONS + SCHED_ASSUME,
                        SCHED_FUNCS)


def c12(tier):
    q = tier == 'quick'
    tags = ['C12']
    W = '<=1 Close frame, no data frame after it, every call returns or raises WebSocketError, a send that raised wrote nothing'
    specs = [
        sched_spec('close-vs-send', tags, [['close'], ['send_text']], 2, W),
        sched_spec('close-vs-close', tags, [['close'], ['close2']], 2, W),
        sched_spec('server-close-vs-send', tags, [['server_close'], ['send_binary']], 2, W + ' (loop echoing a server Close vs application send)'),
        sched_spec('close-vs-loop', tags, [['close'], ['pong', 'auto_ping']], 2, W),
        sched_spec('server-close-vs-close', tags, [['server_close'], ['close']], 2, W),
        sched_spec('close-vs-close-then-send', tags, [['close'], ['close2', 'send_text']], 2, W + ' (a send after both close() calls returned)'),
        sched_spec('closed-event-vs-send', tags, [['close', 'server_close'], ['send_text']], 2,
                   W + ' (thread 1 closes and then processes the server\'s Close reply - the Closed event is handed to the application, a preemption point - '
                       'while thread 2 sends)'),
        sched_spec('close-vs-compressed-send', tags, [['close'], ['send_text']], 2,
                   W + ' (permessage-deflate negotiated: the sender goes through the compressed send path)', compress=dict(client_no_takeover=False)),
        sched_spec('server-close-vs-compressed-send', tags, [['server_close'], ['send_binary']], 2,
                   W + ' (loop echoing a server Close vs a compressed application send)', compress=dict(client_no_takeover=False)),
    ]
    if not q:
        specs += [sched_spec('close-send-send', tags, [['close'], ['send_text'], ['send_binary']], 2, W),
                  sched_spec('close-vs-send-pb3', tags, [['close'], ['send_text', 'send_ping']], 3, W)]
    return run_property('C12', tier, specs, 'model_checking', 'close() atomic w.r.t. other threads', ENV_ASSUMPTIONS + SCHED_ASSUME, SCHED_FUNCS)


PROPS = {'C11': c11, 'C12': c12, 'C06': c06, 'C18': c18, 'C15': c15, 'C16': c16, 'C17': c17, 'C19': c19, 'C10': c10, 'C07': c07, 'C08': c08, 'C09': c09, 'C13': c13, 'C03': c03, 'C02': c02, 'C05': c05, 'C01': c01, 'C04': c04, 'C14': c14}
