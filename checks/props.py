"""property -> explorations (quick / thorough) -> runner"""
from symlomond.runner import Spec, run_property

RECV_FUNCS = ['lomond.session.WebsocketSession.run/_recv/_on_event/_send_pong/write/send',
              'lomond.websocket.WebSocket.connect/feed/on_response/_on_close/close/send_pong/_send_close',
              'lomond.stream.WebsocketStream.feed/build_message', 'lomond.parser.Parser.feed',
              'lomond.frame_parser.FrameParser.parse/on_frame', 'lomond.frame.Frame.validate/build',
              'lomond.message.Message.build/Close.from_payload/Text.from_payload',
              'lomond.utf8validator.Utf8Validator.validate', 'lomond.response.Response.__init__',
              'lomond.mask.mask_payload', 'lomond.selectors.SelectorBase.wait']

ENV_ASSUMPTIONS = [
    'socket/ssl/select/time/os.urandom are stubs (symlomond.env); the only transport behaviours are those the stubs can produce',
    'sequence models (bytes/bytearray/str methods, struct, b64) are pure-Python re-implementations differential-tested against CPython',
    "CPython's UTF-8 codec is modelled by an RFC 3629 acceptor (trusted)",
    'bound: only streams of the stated length after the handshake; longer streams are outside the claim',
    'logging disabled (message formatting not executed)',
]


def recv_spec(name, tags, **P):
    P = dict(P)
    P['tags'] = list(tags)
    if 'family' in P:
        F = P['family']
        P.setdefault('N', 0)
        return Spec(name, 'checks.recv', 'run_recv', P,
                    what='fragmentation family: a %s message of %d symbolic payload bytes in every split into <=%d '
                         'fragments (empty ones included), optionally one empty control frame between two fragments '
                         '(template index is a solver variable), cuts=%s; obligations %s'
                         % ({1: 'text', 2: 'binary'}[F.get('opcode', 1)], F['L'], F.get('max_frags', 3),
                            P.get('cuts', 'one'), ','.join(tags)))
    return Spec(name, 'checks.recv', 'run_recv', P,
                what='%d symbolic stream bytes after a valid handshake (cuts=%s), passive application; '
                     'obligations tagged %s vs RFC 6455 reference receiver' % (P['N'], P.get('cuts', 'one'), ','.join(tags)))


def c01(tier):
    tags = ['C01']
    if tier == 'quick':
        specs = [recv_spec('recv-N5', tags, N=5), recv_spec('recv-N6-nonfin', tags, N=6, first_nonfin=True, no_rsv=True),
                 recv_spec('recv-N6-nonfin-bytewise', tags, N=6, first_nonfin=True, no_rsv=True, cuts='bytewise')]
    else:
        specs = [recv_spec('recv-N7', tags, N=7), recv_spec('recv-N9-nonfin', tags, N=9, first_nonfin=True, no_rsv=True)]
    return run_property('C01', tier, specs, 'model_checking', 'delivery once/in order/byte-exact',
                        ENV_ASSUMPTIONS, RECV_FUNCS)


def c04(tier):
    tags = ['C04']
    fam = [
        # (b) control opcode with the 16-bit length form: all 65536 lengths; those <= 196 complete inside the stream
        recv_spec('ctrl-len16', tags, N=4, first_opcodes=[8, 9, 10], fixed={'1': 126}, suffix='41' * 200),
        # (a) 64-bit length form: 10 symbolic header bytes (all 2^64 lengths)
        recv_spec('len64-header', tags, N=10, fixed={'1': 127}, no_rsv=True, first_opcodes=[1, 2, 9]),
        # (c) Close frames: symbolic 2-byte code (all 65536 codes) + up to 3 reason bytes
        recv_spec('close-codes', tags + ['C01'], N=7, first_opcodes=[8], no_rsv=True),
    ]
    if tier == 'quick':
        specs = [recv_spec('recv-N5', tags, N=5), recv_spec('recv-N4-bytewise', tags, N=4, cuts='bytewise')] + fam[:2] + \
                [recv_spec('close-codes', tags + ['C01'], N=6, first_opcodes=[8], no_rsv=True)]
    else:
        specs = [recv_spec('recv-N7', tags, N=7), recv_spec('recv-N6-bytewise', tags, N=6, cuts='bytewise')] + fam
    return run_property('C04', tier, specs, 'model_checking', 'protocol violations', ENV_ASSUMPTIONS, RECV_FUNCS)


def c14(tier):
    tags = ['C14']
    if tier == 'quick':
        specs = [recv_spec('recv-N5', tags, N=5, auto_pong='sym'),
                 recv_spec('recv-N4-writefault', tags, N=4, first_opcodes=[9, 1, 2, 0],
                           fault=dict(ops=['sendall'], kinds=['oserror', 'exception'], max=1, skip={'sendall': 1}))]
    else:
        specs = [recv_spec('recv-N7', tags, N=7, auto_pong='sym')]
    return run_property('C14', tier, specs, 'model_checking', 'ping/pong', ENV_ASSUMPTIONS, RECV_FUNCS)


def c05(tier):
    from checks import utf8
    tags = ['C05']
    if tier == 'quick':
        specs = [recv_spec('recv-text-N6-bytewise', tags, N=6, first_opcodes=[1], no_rsv=True, cuts='bytewise'),
                 recv_spec('frag-text-L3', tags + ['C01'], family=dict(opcode=1, L=3, max_frags=3), cuts='bytewise'),
                 recv_spec('recv-close-N6', tags + ['C01', 'C04'], N=6, first_opcodes=[8], no_rsv=True)]
    else:
        specs = [recv_spec('recv-text-N8-bytewise', tags, N=8, first_opcodes=[1], no_rsv=True, cuts='bytewise'),
                 recv_spec('frag-text-L4', tags + ['C01'], family=dict(opcode=1, L=4, max_frags=4), cuts='bytewise'),
                 recv_spec('frag-text-L3-tail2', tags + ['C01'], family=dict(opcode=1, L=3, max_frags=3, tail_sym=2), cuts='bytewise'),
                 recv_spec('recv-text-N9-nonfin-bytewise', tags, N=9, first_opcodes=[1], first_nonfin=True, no_rsv=True, cuts='bytewise'),
                 recv_spec('recv-text-N6-allcuts', tags, N=6, first_opcodes=[1], no_rsv=True, cuts='sym'),
                 recv_spec('recv-close-N8', tags + ['C01', 'C04'], N=8, first_opcodes=[8], no_rsv=True)]
    return run_property('C05', tier, specs, 'model_checking', 'strict UTF-8', ENV_ASSUMPTIONS + [
        'layer 1 (bisimulation of the DFA with the RFC 3629 grammar) is unbounded in the input length; layer 2 (pipeline) is bounded as stated',
        'wsaccel C validator not installed: the pure-Python fallback is the code under test'],
        RECV_FUNCS, pre=utf8.closure)


def seg_spec(name, **P):
    P = dict(P)
    P.setdefault('N', 0)
    P.setdefault('tags', ['C02'])
    return Spec(name, 'checks.seg', 'run_seg', P,
                what='same symbolic stream (%s) run in one read and again cut by mode=%s (cut positions are solver '
                     'variables); events, payload terms, written bytes and write/event interleaving proved equal'
                     % ('family %r' % P['family'] if P.get('family') else '%d symbolic bytes%s' % (
                         P['N'], ' after a %d-byte frame' % P['big_prefix'] if P.get('big_prefix') else ''), P['mode']))


def c02(tier):
    if tier == 'quick':
        specs = [seg_spec('allcuts-N4', N=4, mode='frames-allcuts'),
                 seg_spec('bytewise-N5', N=5, mode='bytewise-frames'),
                 seg_spec('hs-joined-N3', N=3, mode='hs-joined-bytewise'),
                 seg_spec('one-cut-anywhere-N3', N=3, mode='one-cut-anywhere', hs_window=8),
                 seg_spec('bytewise-all-N2', N=2, mode='bytewise-all'),
                 seg_spec('burst-after-hs', N=2, mode='after-hs', big_prefix=16400),
                 seg_spec('frag-text-L3-allcuts', family=dict(opcode=1, L=3, max_frags=2), mode='frames-allcuts')]
    else:
        specs = [seg_spec('allcuts-N5', N=5, mode='frames-allcuts'),
                 seg_spec('two-cuts-N6', N=6, mode='two-cuts', hs_window=4),
                 seg_spec('bytewise-N7', N=7, mode='bytewise-frames'),
                 seg_spec('hs-joined-N5', N=5, mode='hs-joined-bytewise'),
                 seg_spec('one-cut-anywhere-N4', N=4, mode='one-cut-anywhere', hs_window=200),
                 seg_spec('bytewise-all-N3', N=3, mode='bytewise-all'),
                 seg_spec('burst-after-hs', N=3, mode='after-hs', big_prefix=16400),
                 seg_spec('burst-after-hs-64k', N=2, mode='after-hs', big_prefix=65400),
                 seg_spec('frag-text-L4-allcuts', family=dict(opcode=1, L=4, max_frags=3), mode='frames-allcuts')]
    return run_property('C02', tier, specs, 'model_checking', 'independence from TCP segmentation',
                        ENV_ASSUMPTIONS + ['reference segmentation = whole stream in one read (lemma mode: p|d1+d2)',
                                           'compressed streams: see C06 (zlib abstracted)'], RECV_FUNCS)


BUILD_FUNCS = ['lomond.websocket.WebSocket.send_text/send_binary/send_json/send_ping/send_pong/close/_send_close',
               'lomond.session.WebsocketSession.send/write', 'lomond.frame.Frame.build/to_bytes/build_close_payload',
               'lomond.mask.mask_payload (+ _XOR_TABLE lemma)']


def build_spec(kind, lens):
    return Spec('build-' + kind, 'checks.build', 'run_build', dict(kind=kind, lens=lens, xval_stride=3),
                what='one %s call on a connected WebSocket; symbolic payload content / code points / close code, '
                     'symbolic 4-byte masking key from os.urandom; length chosen by a solver variable from %s; written bytes '
                     'decoded by the RFC 6455 5.2 server-side decoder' % (kind, lens), chunk=40)


def c03(tier):
    from checks import build
    q = tier == 'quick'
    lens = build.LENS_QUICK if q else build.LENS_THOROUGH
    specs = [build_spec('binary', lens),
             build_spec('text', [0, 1, 2] if q else [0, 1, 2, 3]),
             build_spec('ping', build.CTRL_LENS + [126, 127]),
             build_spec('pong', build.CTRL_LENS + [126]),
             build_spec('close', [0, 1, 3, 122, 123, 124, 125, 200]),
             build_spec('close_text', [0, 1, 2]),
             build_spec('types', [0]),
             build_spec('json', [0])]

    def pre():
        from symlomond import symdata as sd
        import lomond.mask as M
        bad = sd._xor_lemma(M._XOR_TABLE)
        st = dict(sd.XOR_LEMMA_STATS)
        return dict(obligations=st['obligations'], discharged=st['discharged'], failed=[], limits=[],
                    what='lemma: for every row r and byte x, _XOR_TABLE[r][x] == r ^ x (one z3 query per row on the ITE '
                         'encoding of the real table); rows where it fails are encoded exactly, so a wrong entry stays visible',
                    bad_rows=bad, samples=['row r: forall x. ITE(_XOR_TABLE[r])[x] == r xor x'])
    from checks.common import lomond
    lomond()
    return run_property('C03', tier, specs, 'model_checking', 'client frames valid & round-trip',
                        ENV_ASSUMPTIONS + ['content is symbolic at the first/last 8 bytes of long payloads, a fixed pattern in between '
                                           '(the 4-lane XOR structure is periodic); lengths other than the listed ones are outside the claim',
                                           'json.dumps is not encoded (C function): send_json is checked to route concrete objects through one text frame',
                                           'no compression negotiated here (RSV1 with compression is C06)'],
                        BUILD_FUNCS, pre=pre)


PROPS = {'C03': c03, 'C02': c02, 'C05': c05, 'C01': c01, 'C04': c04, 'C14': c14}
