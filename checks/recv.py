"""
H-conn receive sweep: N symbolic bytes after a valid handshake, passive application.
Serves C01 (delivery), C04 (violations), C05 (pipeline / fail-fast), C14 (pongs), C08 (echo).
"""
from .common import *


def build_ping_sweep(c, P):
    """one Ping (or Pong) with a solver-chosen payload length 0..125: symbolic content at both ends"""
    L = c.choose(126, 'plen')
    head = [c.byte('pp%d' % i) for i in range(min(L, 3))]
    tail = [c.byte('pq%d' % i) for i in range(min(max(L - 3, 0), 3))]
    mid = [(7 * i + 1) & 0xFF for i in range(L - len(head) - len(tail))]
    op = P.get('sweep_opcode', 9)
    return [0x80 | op, L] + head + mid + tail + list(bytes.fromhex(P.get('suffix', '')))


LONG_LENS = [0, 1, 125, 126, 127, 255, 256, 65535, 65536, 65537]


def build_long_frame(c, P):
    """one data frame whose payload length comes from a boundary grid (solver variable) in every legal length FORM
    (7-bit, 16-bit, 64-bit incl. non-minimal encodings); symbolic content at both ends; then a small Text frame"""
    lens = P.get('long_lens', LONG_LENS)
    L = lens[c.choose(len(lens), 'L')]
    forms = ['64bit', '16bit', '7bit']
    forms = [f for f in forms if (f != '7bit' or L < 126) and (f != '16bit' or L < 65536)]
    form = forms[c.choose(len(forms), 'form')]
    op = P.get('long_opcode', 2)
    nfrag = 1 + (c.choose(2, 'split') if P.get('long_split', True) and L >= 2 else 0)
    head = [c.byte('lh%d' % i) for i in range(min(L, 2))]
    tail = [c.byte('lt%d' % i) for i in range(min(max(L - 2, 0), 2))]
    if op == 1 and c.concrete is None:
        import z3
        for b in head + tail:
            c.assume(z3.ULT(b.e, 0x80))
    if op == 1 and c.concrete is not None:
        head = [b & 0x7F for b in head]
        tail = [b & 0x7F for b in tail]
    mid = [0x30 + (i % 10) for i in range(L - len(head) - len(tail))]
    payload = head + mid + tail

    def hdr(b0, n):
        if form == '7bit':
            return [b0, n]
        if form == '16bit':
            return [b0, 126, n >> 8, n & 255]
        return [b0, 127] + list(n.to_bytes(8, 'big'))
    if nfrag == 1:
        frames = hdr(0x80 | op, L) + payload
    else:
        k = L // 2
        frames = hdr(op, k) + payload[:k] + hdr(0x80, L - k) + payload[k:]
    return frames + [0x81, 0x01, 0x7A], 'long:%d:%s:%d' % (L, form, nfrag)


def build_stream(c, P):
    """prefix (concrete) ++ N symbolic bytes, optionally constrained"""
    pre = list(bytes.fromhex(P.get('prefix', '')))
    N = P['N']
    sym = [c.byte('b%d' % i) for i in range(N)]
    first = P.get('first_opcodes')
    if first is not None and N >= 1 and c.concrete is None:
        import z3
        b0 = sym[0]
        c.assume(z3.Or([(b0.e & 0x0F) == op for op in first]))
    if P.get('first_nonfin') and N >= 1 and c.concrete is None:
        c.assume((sym[0].e & 0x80) == 0)
    if P.get('no_rsv') and c.concrete is None and N >= 1:
        c.assume((sym[0].e & 0x70) == 0)
    fixed = P.get('fixed')      # {index: value} pin some symbolic bytes (targeted families)
    if fixed and c.concrete is None:
        for k, v in fixed.items():
            c.assume(sym[int(k)].e == v)
    post = list(bytes.fromhex(P.get('suffix', '')))
    return pre + sym + post


def compositions(total, parts):
    if parts == 1:
        yield (total,)
        return
    for k in range(total + 1):
        for rest in compositions(total - k, parts - 1):
            yield (k,) + rest


def frag_templates(F):
    """frame-structure templates: a data message of F['L'] payload bytes split into 1..max_frags
    fragments (empty fragments allowed), optionally with one empty Ping/Pong between two fragments,
    optionally followed by a second small message"""
    out = []
    op = F.get('opcode', 1)
    for nf in range(1, F.get('max_frags', 3) + 1):
        for comp in compositions(F['L'], nf):
            gaps = [None] + (list(range(1, nf)) if F.get('interleave', True) else [])
            for g in gaps:
                t = []
                for i, ln in enumerate(comp):
                    if g is not None and i == g:
                        cl = F.get('ctrl_len', 0)
                        t.append((bytes([0x80 | F.get('ctrl', 9), cl]), cl))
                    b0 = (op if i == 0 else 0) | (0x80 if i == nf - 1 else 0)
                    t.append((bytes([b0, ln]), ln))
                out.append(t)
    return out


def build_family(c, P):
    F = P['family']
    ts = frag_templates(F)
    k = c.choose(len(ts), 'template')
    stream = []
    n = 0
    # complete messages BEFORE the fragmented one (what an earlier message leaves behind in the parser must not matter)
    before = F.get('before')
    bcls = ''
    if before:
        b = before[c.choose(len(before), 'before')]
        stream.extend(bytes.fromhex(b))
        bcls = ':after-' + (b[:2] or 'none')
    for hdr, ln in ts[k]:
        stream.extend(hdr)
        for _ in range(ln):
            stream.append(c.byte('p%d' % n))
            n += 1
    tail = F.get('tail_sym', 0)
    for i in range(tail):
        stream.append(c.byte('t%d' % i))
    after = F.get('after')
    if after:
        a = after[c.choose(len(after), 'after')]
        stream.extend(bytes.fromhex(a))
        bcls += ':then-' + (a[:2] or 'none')
    return stream, 'tmpl%d%s' % (len(ts[k]), bcls)


def _earlier_connection(c, L, P):
    """an EARLIER connection in the same process (solver-chosen ending): what it left behind must not influence the connection that
    is checked.  A solver variable decides whether it ran on its OWN WebSocket object or on the very object that is then
    connected again (what persist() does)"""
    opts = P['earlier']
    hx = opts[c.choose(len(opts), 'earlier')]
    how = ['eof', 'error'][c.choose(2, 'earlier_end')]
    w0 = new_world()
    if hx.startswith('Z'):
        # the earlier connection NEGOTIATED permessage-deflate and received compressed (RSV1) messages: a compressed text, a compressed
        # binary and the first fragment of an unfinished compressed message (abstract zlib of C06), then the rest of the hex string
        from .deflate import RefPeerDeflater
        d0 = RefPeerDeflater(c, 15, False)
        st0 = []
        for first, body in ((0xC1, b'hello hello'), (0xC2, b'hello again'), (0x41, b'hello')):
            m = list(d0.compress(list(body)))
            st0 += [first, len(m)] + m
        st0 += list(bytes.fromhex(hx[1:]))
        w0.default_script = HsThenCuts(w0, hconn.server_stream(st0, b'Sec-WebSocket-Extensions: permessage-deflate\r\n'), 'one', end=how)
        ws0 = L.WebSocket('ws://example.com/', compress=True)
    else:
        w0.default_script = HsThenCuts(w0, hconn.server_stream(list(bytes.fromhex(hx))), 'one', end=how)
        ws0 = L.WebSocket('ws://example.com/', compress=bool(P.get('negotiate_compression')))
    rec0 = hconn.drive(w0, ws0, dict(poll=1e9, ping_rate=0, ping_timeout=None, close_timeout=None))
    if rec0.budget is not None:
        raise EngineLimit('loop budget in the earlier connection')
    if hx.startswith('Z') and 'text' not in rec0.names():
        raise EngineLimit('the earlier compressed connection did not deliver its compressed text: %r' % rec0.names())
    same = c.choose(2, 'earlier_same_object')
    return ':earlier-%s-%s-%s' % (hx or 'none', how, 'same-object' if same else 'other-object'), (ws0 if same else None)


def run_recv(c, P):
    L = lomond()
    ecls, ws_reused = _earlier_connection(c, L, P) if P.get('earlier') else ('', None)
    w = new_world()
    tcls = None
    if P.get('family'):
        stream, tcls = build_family(c, P)
    elif P.get('long_frame'):
        stream, tcls = build_long_frame(c, P)
    elif P.get('ping_sweep'):
        stream = build_ping_sweep(c, P)
        tcls = 'plen%d' % (len(stream) - 2 - len(P.get('suffix', '')) // 2)
    else:
        stream = build_stream(c, P)
    extra = b''
    if P.get('negotiate_compression'):
        # permessage-deflate offered (compress=True) and accepted by the server; the incoming frames stay uncompressed
        # (RSV1 clear), which the extension allows per message
        extra = b'Sec-WebSocket-Extensions: permessage-deflate\r\n'
    w.default_script = HsThenCuts(w, hconn.server_stream(stream, extra), P.get('cuts', 'one'), end='eof')
    if P.get('reads') == 'joined':
        # the upgrade reply and the frames behind it arrive in the SAME read (as much as the receive buffer takes)
        w.default_script = Script(hconn.server_stream(stream, extra), cuts='one', end='eof')
    elif P.get('reads') == 'header-own-read':
        # the server writes the frame header and the payload with two writes: the reply, the header and the payload are three reads,
        # the payload read ends exactly at the frame end; the frame behind it arrives in a later read
        _, L_, form_, _ = tcls.split(':')
        w.default_script = HsThenCuts(w, hconn.server_stream(stream, extra), [{'7bit': 2, '16bit': 4, '64bit': 10}[form_], int(L_)], end='eof')
    elif P.get('reads') == 'tls16k':
        # TLS-like: the reply is split over two records (split position = solver variable), the following records are full
        k = [1, 17, 100][c.choose(3, 'hs_split')]
        w.default_script = Script(hconn.server_stream(stream, extra), cuts=[k] + [16384] * 12, end='eof')
        tcls = (tcls or '') + ':split%d' % k
    if P.get('fault'):
        F = P['fault']
        w.fault_hook = env.SymFaults(F['ops'], F.get('kinds', ['oserror']), F.get('max', 1), F.get('skip'))
    ws = ws_reused if ws_reused is not None else L.WebSocket('ws://example.com/', compress=bool(P.get('negotiate_compression') or P.get('offer_declined')))
    auto_pong = P.get('auto_pong', True)
    if auto_pong == 'sym':
        auto_pong = bool(c.boolean('auto_pong'))
    app = None
    if P.get('app_rejected_close_at_ready'):
        def app(idx, ev, ws_, gen):
            if ev.name == 'ready':
                try:
                    ws_.close(1000, b'x' * 200)        # not sendable: must raise ValueError and change nothing
                except ValueError:
                    pass
    if P.get('app_close_at_ready'):
        def app(idx, ev, ws_, gen):
            if ev.name == 'ready':
                ws_.close(1000, b'bye')
    rec = hconn.drive(w, ws, dict(poll=1e9, ping_rate=0, ping_timeout=None, close_timeout=None,
                                  auto_pong=auto_pong), app)
    hconn.scribble_receive_buffer(ws)
    c.notes['scenario'] = rec.names()
    cls, ob = hconn.check_receive(c, w, rec, stream, P['tags'], auto_pong=auto_pong,
                                  bytewise_failfast=True, client_closed=bool(P.get('app_close_at_ready')))
    names = rec.names()
    if tcls or ecls:
        cls.add((tcls or '') + ecls)
    return {'cls': sorted(cls) or ['_plain'], 'sample': {'events': names[3:]},
            'observe': {'events': names, 'wire': wire_summary(w)}}

