"""
C11 / C12 (H-sched): real threads running the real send_* / close / loop-side functions on one connected
WebSocket under a deterministic baton-passing scheduler.

  * preemption points = line events (sys.settrace) in lomond source files + the middle of sendall (the stub
    splits every write in two);
  * the session's threading.Lock is replaced by a scheduler-aware lock (blocking = forced switch);
  * WHICH THREAD RUNS at each preemption point is a solver variable (engine.choose); the explorer enumerates the
    feasible assignments with at most PB preemptions (switches not forced by blocking or thread exit);
  * message payloads are symbolic; the wire is decoded by the RFC 6455 server-side decoder on terms.

Honest scope: the schedule dimension is explored path by path (as any path-based symbolic executor treats
nondeterministic choices); granularity is source lines, not bytecodes; more than PB preemptions are outside.
"""
import sys
import threading
import z3
from .common import *
from symlomond.symdata import items_of, eq_items, mk_bytes, mk_str
from symlomond import instrument


class ThreadKill(BaseException):
    pass


class Sched(object):
    def __init__(self, c, pb, trace_files=None):
        self.c = c
        self.pb = pb
        self.cv = threading.Condition()
        self.turn = None
        self.threads = {}         # name -> dict(state='ready'|'blocked'|'done', fn, exc, result)
        self.order = []
        self.abort = None
        self.switches = []        # (from, to, reason)
        self.trace_root = instrument.ROOT
        self.npoints = 0
        self.deadlock = False
        self.trace_only = {}      # thread -> set of file names whose statements are preemption points (default: all)
        self.loc = {}             # thread -> lomond function it is currently executing (last statement start seen)
        self.occ = {}             # (thread, location) -> occurrences so far (names of the decision variables)
        self.nforced = 0
        self.stmt_lines = stmt_start_lines(self.trace_root)

    # ---- called from worker threads --------------------------------------------------------
    def _runnable(self, exclude=None):
        return [n for n in self.order if self.threads[n]['state'] == 'ready' and n != exclude]

    def point(self, name, what='line'):
        """a preemption point of the running thread `name`"""
        if self.abort is not None:
            raise ThreadKill()
        self.npoints += 1
        if self.pb <= 0:
            return
        others = self._runnable(exclude=name)
        if not others:
            return
        key = (name, what)
        n = self.occ.get(key, 0)
        self.occ[key] = n + 1
        # the decision variable is named after the program location (not its position in the run), so that the
        # same schedule can be replayed on the un-instrumented code
        k = self.c.choose(1 + len(others), 'sched@%s@%s#%d' % (name, what, n), raw_name=True)
        if k == 0:
            return
        self.pb -= 1
        self._switch(name, others[k - 1], 'preempt@' + what)

    def _switch(self, me, to, reason):
        with self.cv:
            self.switches.append((me, to, reason))
            self.turn = to
            self.cv.notify_all()
            while self.turn != me:
                if self.abort is not None:
                    raise ThreadKill()
                self.cv.wait(1.0)

    def block(self, name, what):
        """thread `name` cannot proceed (lock held by another thread): forced switch"""
        self.threads[name]['state'] = 'blocked'
        self.threads[name]['blocked_on'] = what
        others = self._runnable(exclude=name)
        if not others:
            self.deadlock = True
            self.abort = ('deadlock', name, what)
            with self.cv:
                self.cv.notify_all()
            raise ThreadKill()
        self.nforced += 1
        k = self.c.choose(len(others), 'sched_forced#%d' % self.nforced, raw_name=True) if len(others) > 1 else 0
        self._switch(name, others[k], 'blocked:' + what)

    def unblock_waiters(self, what):
        for n in self.order:
            t = self.threads[n]
            if t['state'] == 'blocked' and t.get('blocked_on') == what:
                t['state'] = 'ready'

    def finish(self, name):
        self.threads[name]['state'] = 'done'
        others = self._runnable()
        with self.cv:
            if others:
                self.nforced += 1
                k = self.c.choose(len(others), 'sched_exit#%d' % self.nforced, raw_name=True) if (len(others) > 1 and self.abort is None) else 0
                self.turn = others[k]
                self.switches.append((name, others[k], 'exit'))
            else:
                self.turn = '__main__'
            self.cv.notify_all()

    # ---- tracing -----------------------------------------------------------------------------
    def tracer(self, name):
        root = self.trace_root

        last = {}

        def local(frame, event, arg):
            if event == 'line':
                fn = frame.f_code.co_filename.rsplit('/', 1)[-1]
                st = self.stmt_lines.get(fn, {}).get(frame.f_lineno)
                # a preemption point = entering a statement (moving between the lines of one multi-line statement is not
                # a new point: which line comes first depends on how the expression was compiled)
                if st is not None and last.get(id(frame)) != st:
                    last[id(frame)] = st
                    self.loc[name] = '%s:%s' % (fn, frame.f_code.co_name)
                    self.point(name, '%s:%d' % (fn, st))
            elif event == 'return':
                last.pop(id(frame), None)
            return local

        only = self.trace_only.get(name)

        def glob(frame, event, arg):
            fn = frame.f_code.co_filename
            if fn.startswith(root) and (only is None or fn.rsplit('/', 1)[-1] in only):
                return local
            return None
        return glob

    # ---- main --------------------------------------------------------------------------------
    def run(self, bodies, first=None):
        self.order = list(bodies)
        for n, fn in bodies.items():
            self.threads[n] = dict(state='ready', fn=fn, exc=None, result=None)
        start = self.order[self.c.choose(len(self.order), 'sched_first', raw_name=True)] if first is None else first
        ths = []
        for n in self.order:
            t = threading.Thread(target=self._body, args=(n,), daemon=True)
            ths.append(t)
        self.turn = start
        for t in ths:
            t.start()
        with self.cv:
            while self.turn != '__main__' and self.abort is None:
                self.cv.wait(1.0)
        if self.abort is not None:
            with self.cv:
                self.cv.notify_all()
        for t in ths:
            t.join(5)
        if any(t.is_alive() for t in ths):
            raise EngineLimit('scheduler: worker thread did not terminate')
        if self.abort is not None and self.abort[0] == 'engine':
            raise self.abort[1]

    def _body(self, name):
        info = self.threads[name]
        try:
            with self.cv:
                while self.turn != name:
                    if self.abort is not None:
                        return
                    self.cv.wait(1.0)
            sys.settrace(self.tracer(name))
            try:
                info['result'] = info['fn']()
            finally:
                sys.settrace(None)
        except ThreadKill:
            pass
        except (engine.PathAbort, engine.Violation, engine.EngineLimit) as e:
            self.abort = ('engine', e)
        except BaseException as e:
            info['exc'] = e
        finally:
            sys.settrace(None)
            if self.abort is None:
                self.finish(name)
            else:
                info['state'] = 'done'
                with self.cv:
                    self.turn = '__main__' if not self._runnable() else self.turn
                    self.cv.notify_all()


_STMT = {}


def stmt_start_lines(root):
    """line -> first line of the innermost statement containing it, for every lomond source file.
    A preemption point is "entering a statement": the first line event inside a statement's line range, whichever
    of its lines the compiler attributed the first bytecode to (multi-line statements differ between the original
    and the instrumented code in that respect)."""
    if root in _STMT:
        return _STMT[root]
    import ast
    import os
    out = {}
    for fn in os.listdir(root):
        if not fn.endswith('.py'):
            continue
        with open(os.path.join(root, fn)) as fh:
            tree = ast.parse(fh.read())
        m = {}

        def visit(stmts):
            for st in stmts:
                bodies = [getattr(st, f) for f in ('body', 'orelse', 'finalbody', 'handlers') if getattr(st, f, None)]
                inner = []
                for bd in bodies:
                    for x in bd:
                        if isinstance(x, ast.ExceptHandler):
                            m[x.lineno] = x.lineno
                            inner.extend(x.body)
                        elif isinstance(x, ast.stmt):
                            inner.append(x)
                if inner:
                    first = min(x.lineno for x in inner)
                    for ln in range(st.lineno, max(st.lineno, first - 1) + 1):
                        if ln < first or ln == st.lineno:
                            m[ln] = st.lineno
                    visit(inner)
                else:
                    for ln in range(st.lineno, (st.end_lineno or st.lineno) + 1):
                        m[ln] = st.lineno
        visit(tree.body)
        out[fn] = m
    _STMT[root] = out
    return out


_RLOCK_TYPE = type(threading.RLock())


class SchedLock(object):
    """replacement for the session's lock: acquiring a lock held by ANOTHER thread is a forced switch.  It is re-entrant exactly when
    the lock it replaces is (`like` = the lock object the session created: threading.Lock or threading.RLock)"""

    def __init__(self, sched, name='session._lock', like=None):
        self.s = sched
        self.name = name
        self.owner = None
        self.depth = 0
        self.reentrant = isinstance(like, _RLOCK_TYPE)
        self.log = []        # (thread, 'acquire'|'release', snapshot)

    def _me(self):
        return threading.current_thread().sched_name

    def acquire(self, blocking=True, timeout=-1):
        me = self._me()
        if self.reentrant and self.owner == me:
            self.depth += 1
            return True
        if not blocking and self.owner is not None:
            self.log.append((me, 'acquire-failed', None))
            return False
        while self.owner is not None:
            if self.owner == me:
                self.s.abort = ('deadlock', me, 'self-deadlock on ' + self.name)
                raise ThreadKill()
            self.s.block(me, self.name)
        self.owner = me
        self.depth = 1
        self.log.append((me, 'acquire', self.s.snapshot() if hasattr(self.s, 'snapshot') else None))
        return True

    def release(self):
        self.depth -= 1
        if self.depth > 0:
            return
        self.owner = None
        self.log.append((self._me(), 'release', None))
        self.s.unblock_waiters(self.name)

    def __enter__(self):
        self.acquire()
        return self

    def __exit__(self, *a):
        self.release()

    def locked(self):
        return self.owner is not None


class SplitSock(env._PlainSocket):
    """sendall happens in two steps with a preemption point in between"""

    def sendall(self, data):
        w = self.w
        it = items_of(data)
        if it[:4] == list(b'GET '):
            # the upgrade request (written by the loop thread before anyone else can send)
            return env.FakeSocket.sendall(self, data)
        me = threading.current_thread().sched_name
        h = len(it) // 2
        lk = getattr(w, 'session_lock', None)
        acq = [x for x in (lk.log if lk is not None else []) if x[0] == me and x[1] == 'acquire']
        snap = acq[-1][2] if (acq and lk.owner == me) else {'lock': 'not held'}
        w.log.append(('write-part', self.id, it[:h], me, snap))
        if getattr(w, 'stall_thread', None) == me:
            # flow control: the peer is busy pushing its own data and does not read ours until we have read its bytes, so
            # this sendall cannot complete before the event loop has performed another recv
            nrecv = len([e for e in w.log if e[0] == 'recv'])
            while self.script is not None and self.script.remaining() > 0 and len([e for e in w.log if e[0] == 'recv']) == nrecv:
                w.sched.block(me, 'peer-not-reading')
        if getattr(w, 'rst_on_send', None) not in (None, False, me) and self.script is not None and self.script.end == 'silence':
            # the connection dies while this sendall is under way: the reset becomes visible to the event loop (blocked in its
            # selector wait) NOW, i.e. while this thread still holds the write lock
            self.script.end = 'error'
            w.sched.unblock_waiters('network')
        w.sched.point(me, 'sendall-mid')
        w.log.append(('write-part', self.id, it[h:], me, snap))

    def recv_into(self, buf, n=0):
        r = env._PlainSocket.recv_into(self, buf, n)
        self.w.sched.unblock_waiters('peer-not-reading')
        return r


BIG = 70000
PROXY_ANSWER = b'HTTP/1.1 200 Connection established\r\n\r\n'


def _count_sub(items, sub):
    return sum(1 for i in range(len(items) - len(sub) + 1) if items[i:i + len(sub)] == sub)


def make_ws(c, w, sched, compress_cfg=None):
    L = lomond()
    from lomond.session import WebsocketSession
    ws = L.WebSocket('ws://example.com/', compress=bool(compress_cfg))
    s = WebsocketSession(ws)
    ws.state.session = s
    sock = SplitSock(w)
    sock.connected = True
    s._sock = sock
    s._ready = True
    s._lock = SchedLock(sched, like=s._lock)
    w.session_lock = s._lock
    s._next_ping = 0.0
    s._last_pong = 0.0
    if compress_cfg:
        from lomond.compression import Deflate
        comp = Deflate(15, 15, False, compress_cfg.get('client_no_takeover', False))
        ws.state.compression = comp
    return ws, s, sock


def _closer_class(loc):
    """where is a thread that is executing a close: anywhere on the close() -> _send_close -> send -> write call chain
    (the known window: Close written, flag not yet set) or somewhere else"""
    if loc in ('websocket.py:close', 'websocket.py:_send_close', 'session.py:send', 'session.py:write', 'frame.py:build',
               'frame.py:to_bytes', 'frame.py:__init__', 'frame.py:build_close_payload', 'mask.py:mask_payload', 'mask.py:<genexpr>'):
        return 'inside close()'
    return loc


def named(fn, name):
    def wrapper():
        threading.current_thread().sched_name = name
        return fn()
    return wrapper


def run_sched(c, P):
    lomond()
    from lomond import errors
    from lomond.message import Close
    w = new_world()
    pb = P['pb']
    sched = Sched(c, pb)
    w.sched = sched
    ws, sess, sock = make_ws(c, w, sched, P.get('compress'))
    in_close = {}
    sched.snapshot = lambda: dict(closing=ws.state.closing, closed=ws.state.closed,
                                  close_in_progress=any(in_close.values()),
                                  closer_at=sorted(set(_closer_class(sched.loc.get(n, '?')) for n, v in in_close.items() if v)),
                                  close_on_wire=any(e[0] == 'write-part' and e[2] and isinstance(e[2][0], int) and e[2][0] & 15 == 8
                                                    for e in w.log))
    results = {}
    sent = {}            # thread -> list of (opcode, payload items, compressed?)
    plan = P['threads']  # list of lists of ops per thread

    def do(name, ops):
        out = []
        sent[name] = []
        for i, op in enumerate(ops):
            nwr = len([e for e in w.log if e[0] == 'write-part' and e[3] == name])
            try:
                if op == 'send_text':
                    b = c.int('%s_t%d' % (name, i), 7)
                    pay = [b]
                    if c.concrete is not None and P.get('compress'):
                        # replay: content chosen so that real DEFLATE uses its history (a different letter per thread; with
                        # client_no_context_takeover the SAME text in every thread, so that a context that was not reset shows)
                        pay = [0x40 + int(name[1:])] * 4
                        if P['compress'].get('client_no_takeover'):
                            pay = list(b'lomond-lomond-lomond-lomond')
                    ws.send_text(mk_str(pay) if c.concrete is None else bytes(pay).decode('ascii'))
                    sent[name].append((1, pay))
                elif op == 'send_binary':
                    pay = [c.byte('%s_b%d' % (name, i))]
                    if c.concrete is not None and P.get('compress'):
                        pay = [0x40 + int(name[1:])] * 4
                        if P['compress'].get('client_no_takeover'):
                            pay = list(b'lomond-lomond-lomond-lomond')
                    ws.send_binary(mk_bytes(pay))
                    sent[name].append((2, pay))
                elif op == 'send_binary_raw':
                    # compress=False on a connection that negotiated permessage-deflate: goes out uncompressed (RSV1 clear)
                    pay = [c.byte('%s_r%d' % (name, i))]
                    if c.concrete is not None and P.get('compress'):
                        pay = list(b'raw-raw-raw-raw')
                    ws.send_binary(mk_bytes(pay), compress=False)
                    sent[name].append((2, pay))
                elif op == 'send_big':
                    # a large message (more than one 64 KiB buffer): symbolic first byte, fixed pattern behind it
                    pay = [c.byte('%s_g%d' % (name, i))] + [(k * 7 + 3) & 0xFF for k in range(BIG - 1)]
                    ws.send_binary(mk_bytes(pay))
                    sent[name].append((2, pay))
                elif op == 'send_stalled':
                    # a send whose sendall is held up by flow control until the loop reads (see SplitSock.sendall)
                    b = c.int('%s_s%d' % (name, i), 7)
                    w.stall_thread = name
                    try:
                        ws.send_text(mk_str([b]) if c.concrete is None else chr(b))
                    finally:
                        w.stall_thread = None
                    sent[name].append((1, [b]))
                elif op == 'send_ping':
                    pay = [c.byte('%s_p%d' % (name, i))]
                    ws.send_ping(mk_bytes(pay))
                    sent[name].append((9, pay))
                elif op in ('close', 'close2', 'server_close'):
                    in_close[name] = True
                    try:
                        if op == 'close':
                            ws.close(1000, b'bye')
                        elif op == 'close2':
                            ws.close(1001, b'again')
                        else:
                            # what the event loop does when the server's Close arrives: the Closing event is handed to
                            # the application (handler time = a preemption point), then the generator is resumed
                            g = ws._on_close(Close(1000, 'srv'))
                            for _ev in g:
                                sched.point(name, 'closing-event-handler')
                    finally:
                        in_close[name] = False
                elif op == 'pong':
                    class Ev(object):
                        data = b'pp'
                    sess._send_pong(Ev())
                    sent[name].append((10, list(b'pp')))
                elif op == 'auto_ping':
                    sess._check_auto_ping(30, 1.0)
                    sent[name].append((9, []))
                out.append((op, 'ok', None))
            except errors.WebSocketError as e:
                wrote = len([e_ for e_ in w.log if e_[0] == 'write-part' and e_[3] == name]) - nwr
                out.append((op, 'ws-error', wrote))
                if sent[name] and op.startswith('send') and len(sent[name]) and out[-1][1] == 'ws-error':
                    pass
            except Exception as e:
                out.append((op, 'exception:%s' % type(e).__name__, None))
        results[name] = out
        return out
    def loop_body(name):
        """the REAL event loop (ws.connect() -> session.run()) on this thread: the server sends a Ping, so the loop's
        own automatic Pong competes with the other threads' sends"""
        sent[name] = []
        ping = [c.byte('%s_ping' % name)]
        w.sock_class = SplitSock
        loop_end = P.get('loop_end', 'eof')       # how the transport ends behind the Ping: EOF, or a socket error (connection reset)
        w.default_script = Script(hconn.server_stream([0x89, 0x01] + ping), cuts='one', end=loop_end)
        if P.get('hs_separate'):
            # the upgrade reply arrives in its own read, the Ping in a later one
            w.default_script = HsThenCuts(w, hconn.server_stream([0x89, 0x01] + ping), 'one', end=loop_end)
        if P.get('proxy'):
            # the socket is the proxy's: it answers the CONNECT, then carries the websocket handshake
            sc = Script(lambda w_, s_: list(PROXY_ANSWER), cuts='one', end='eof')
            sc.phases.append(lambda w_, s_: (hconn.reply_101(w_, s_) + [0x89, 0x01] + ping) if hconn.request_key(w_, s_) else None)
            w.default_script = sc
        if P.get('rst_during_send'):
            # behind the Ping the server is silent: the loop sleeps in its selector wait (a forced switch, not a preemption) until
            # another thread's sendall makes the reset arrive (see SplitSock.sendall)
            w.default_script.end = 'silence'
            w.default_script.silent_waits = 10 ** 9
            w.rst_on_send = name          # (any thread's sendall but the loop thread's own)

            def advance(w_, socks, ready, timeout, scale):
                import select as _select
                if not ready:
                    while not any(s_.readable() for s_ in socks):
                        sched.block(name, 'network')
                    ready = [s_ for s_ in socks if s_.readable()]
                return [(s_.fd, _select.POLLIN) for s_ in ready]
            w.advance = advance
        out = []
        gen = ws.connect(poll=1e9, ping_rate=0, ping_timeout=None, close_timeout=None)
        try:
            for ev in gen:
                if ev.name == 'connecting':
                    ws.state.session._lock = w.session_lock = SchedLock(sched, like=ws.state.session._lock)
                elif ev.name == 'ready':
                    sched.unblock_waiters('ready-gate')
                    state['ready'] = True
                elif ev.name == 'ping':
                    sent[name].append((10, ping))
                elif ev.name == 'disconnected':
                    state['graceful'] = ev.graceful
                out.append(ev.name)
                if P.get('loop_abandon_at') == ev.name:
                    # the consumer stops iterating here and closes the generator (C13), whatever other threads are doing
                    sched.point(name, 'abandon')
                    break
            gen.close()
        finally:
            state['ready'] = True
            sched.unblock_waiters('ready-gate')
        results[name] = [('loop', 'ok', None)]
        state['loop_events'] = out
        return out
    state = {'ready': not any(ops == ['loop'] for ops in plan)}
    if not state['ready']:
        from lomond import WebSocket as _WS
        ws = _WS('ws://example.com/', proxies={'http': 'http://proxy.local:3128'} if P.get('proxy') else {})

    def gated(name, ops):
        # application threads only start sending once the connection is Ready -- except 'early_*' operations, which
        # may run at any moment of the connection set-up (they are expected to be refused with a WebSocketError)
        if ops and ops[0].startswith('early_'):
            return do(name, [o[len('early_'):] for o in ops])
        while not state['ready']:
            sched.block(name, 'ready-gate')
        return do(name, ops)
    bodies = {}
    for i, ops in enumerate(plan):
        name = 'T%d' % (i + 1)
        if ops == ['loop']:
            # the event-loop thread: statements of the session / websocket / frame / mask / compression modules are
            # preemption points; the receive-side parser modules (no shared state with senders) are not
            sched.trace_only[name] = {'session.py', 'websocket.py', 'frame.py', 'mask.py', 'compression.py'}
            bodies[name] = named(lambda name=name: loop_body(name), name)
        else:
            bodies[name] = named(lambda name=name, ops=ops: gated(name, ops), name)
    import gc
    # z3 objects must never be finalised by a waiting thread while the running thread is inside a z3 call
    # (ctypes releases the GIL): no cyclic GC while worker threads exist
    gc.disable()
    try:
        sched.run(bodies)
    finally:
        gc.enable()
    tags = P['tags']
    c.notes['scenario'] = dict(threads=plan, switches=sched.switches, results=results)
    if sched.deadlock:
        c.fail('%s: deadlock: %r' % (tags[0], sched.abort,))
    for n, t in sched.threads.items():
        if t['exc'] is not None:
            c.fail('%s: thread %s died with %r' % (tags[0], n, t['exc']))
    cls = set(['switches:%d' % len([s for s in sched.switches if s[2].startswith('preempt')])])
    # ---------------- the wire
    parts = [e for e in w.log if e[0] == 'write-part']
    if not state['ready'] or any(ops == ['loop'] for ops in plan):
        cls.add('real-event-loop')
    wire = []
    for e in parts:
        wire.extend(e[2])
    torn = False
    # a frame is torn if its two halves are not adjacent
    for i in range(0, len(parts) - 1):
        pass
    if P.get('proxy') and wire[:8] == list(b'CONNECT '):
        # the CONNECT request precedes the frames on a proxied socket
        for i in range(len(wire) - 3):
            if wire[i:i + 4] == [13, 10, 13, 10]:
                skip = i + 4
                break
        else:
            skip = len(wire)
        wire = wire[skip:]
        # (frame offsets below are relative to the first byte after the request)
        pos, parts2 = 0, []
        for e in parts:
            n = len(e[2])
            if pos + n <= skip:
                pos += n
                continue
            cut = max(0, skip - pos)
            parts2.append(e[:2] + (e[2][cut:],) + e[3:])
            pos += n
        parts = parts2
    try:
        frames = refmodel.decode_client_frames(wire)
    except refmodel.WireError as e:
        c.fail('%s: bytes on the wire are not a sequence of whole frames (%s); write order %s'
               % (tags[0], e, [(p[3], len(p[2])) for p in parts]), sig='%s: wire is not a sequence of whole frames' % tags[0])
    ops_wire = [f['opcode'] for f in frames]
    if 'C11' in tags:
        # exactly the messages sent, each thread's messages in its own order
        expected = []
        for n in sent:
            ok_ops = [r for r in results[n] if r[1] == 'ok']
        remaining = {n: list(v) for n, v in sent.items()}
        # only messages whose call succeeded count
        for n in remaining:
            succ = [r[1] == 'ok' for r in results[n] if r[0].startswith('send')]
            remaining[n] = [m for m, ok in zip(remaining[n], succ + [True] * len(remaining[n])) if ok]
        inflater = None
        if P.get('compress'):
            from .deflate import RefPeerInflater
            inflater = RefPeerInflater(c, 15, P['compress'].get('client_no_takeover', False))
        # what the peer decodes, in wire order (RFC 6455 5.4: a data message is one unfragmented frame or a first frame
        # FIN=0 followed by continuation frames of the SAME message; control frames may stand between fragments)
        wire_msgs = []
        cur = None
        for fi, f in enumerate(frames):
            if f['opcode'] in (9, 10):
                wire_msgs.append(dict(f, first=fi))
            elif f['opcode'] in (1, 2):
                if cur is not None:
                    who_a, _ = _writer_of_frame(parts, frames, cur['first'])
                    who_b, _ = _writer_of_frame(parts, frames, fi)
                    c.fail('C11: the peer cannot decode the wire: a new data message (frame %d, written by %s) starts while the fragmented '
                           'message begun in frame %d (written by %s) is still in progress' % (fi, who_b, cur['first'], who_a),
                           sig='C11: fragments of different messages interleaved on the wire')
                cur = dict(f, first=fi, payload=list(f['payload']))
                if f['fin']:
                    wire_msgs.append(cur)
                    cur = None
            elif f['opcode'] == 0:
                if cur is None:
                    c.fail('C11: the peer cannot decode the wire: continuation frame %d without a message in progress' % fi,
                           sig='C11: fragments of different messages interleaved on the wire')
                who_a, _ = _writer_of_frame(parts, frames, cur['first'])
                who_b, _ = _writer_of_frame(parts, frames, fi)
                if who_a != who_b:
                    c.fail('C11: continuation frame %d written by %s continues a message begun by %s' % (fi, who_b, who_a),
                           sig='C11: fragments of different messages interleaved on the wire')
                cur['payload'] = cur['payload'] + list(f['payload'])
                if f['fin']:
                    wire_msgs.append(cur)
                    cur = None
        if cur is not None:
            c.fail('C11: the last data message on the wire is never finished (no FIN frame)', sig='C11: message lost')
        for f in wire_msgs:
            pay = f['payload']
            if f['rsv1']:
                try:
                    pay = inflater.inflate(pay)
                except ValueError as e:
                    calls = [(g, s) for g, s, _ in w.notes.get('zlib', {}).get('compress_calls', [])]
                    wire_tags = []
                    for g_ in frames:
                        if g_['rsv1'] and len(g_['payload']) >= 4:
                            t_ = g_['payload'][2:4]
                            wire_tags.append(tuple(x if isinstance(x, int) else x.concretize() for x in t_))
                    if c.concrete is not None:
                        # replay with the real zlib: the failure itself is what has to reproduce
                        c.fail('C11: the peer cannot inflate the messages in wire order (real zlib): %s' % e)
                    if calls != wire_tags:
                        c.fail('C11: the peer cannot inflate the messages in wire order: %s (compress order %s, wire order %s)'
                               % (e, calls, wire_tags), sig='C11: compression order differs from wire order (context takeover)')
                    c.fail('C11: the peer cannot inflate the messages although they were written in the order they were compressed: %s '
                           '(compress order %s)' % (e, calls), sig='C11: peer cannot inflate; compression order equals wire order')
            # the frame must be the next message of the thread that wrote it
            who, _snap = _writer_of_frame(parts, frames, f['first'])
            q = remaining.get(who)
            if not q or q[0][0] != f['opcode']:
                c.fail('C11: a frame on the wire (opcode %d, written by %s) is not the next message of that thread '
                       '(lost/duplicated/reordered within a thread)' % (f['opcode'], who),
                       sig='C11: wire does not contain exactly the messages sent in per-thread order')
            c.prove(eq_items(q[0][1], pay), 'C11: frame written by %s does not carry the payload of its next message' % who,
                    sig='C11: wire does not contain exactly the messages sent in per-thread order')
            q.pop(0)
        left = {n: q for n, q in remaining.items() if q}
        if left:
            c.fail('C11: %d message(s) never reached the wire' % sum(len(q) for q in left.values()),
                   sig='C11: message lost')
        cls.add('frames:%d' % len(frames))
    if 'C09' in tags:
        # the transport failed under the event loop while another thread was sending: still a terminal Disconnected(graceful=False), the
        # application's send returns or raises a WebSocketError, and the socket ends up closed
        ev_ = state.get('loop_events') or []
        if not ev_ or ev_[-1] != 'disconnected':
            c.fail('C09: the event stream does not end with Disconnected after the transport failed (loop events %s)' % ev_)
        if state.get('graceful') is not False:
            c.fail('C09: Disconnected is graceful although no closing handshake took place (loop events %s)' % ev_)
        for n_, res in results.items():
            for r in res:
                if r[1].startswith('exception'):
                    c.fail('C09: application call %s raised %s (not a WebSocketError) while the transport failed' % (r[0], r[1]))
        for s_ in w.socks:
            if s_ is sock:
                continue
            if s_.connected and not s_.closed:
                c.fail('C09: socket left open after the transport failed while another thread was sending (loop events %s)' % ev_,
                       sig='C09: socket left open after a transport failure (threads)')
        cls.add('reset-while-sending' if any(s_[2] == 'preempt@sendall-mid' for s_ in sched.switches) else 'reset')
    if 'C13' in tags:
        for s_ in w.socks:
            if s_ is sock:
                continue          # (the directly constructed socket of the loop-less variants; unused here)
            if s_.connected and not s_.closed:
                c.fail('C13: socket left open after the loop was abandoned at %s while another thread was sending (loop events %s)'
                       % (P.get('loop_abandon_at'), state.get('loop_events')), sig='C13: socket left open after abandoning (threads)')
        cls.add('abandoned@%s' % P.get('loop_abandon_at'))
    if 'C18' in tags:
        # the loop must have delivered the server's Ping (and written its Pong) although an application send was stalled:
        # receiving never waits for a sender (a deadlock was reported above)
        loop_names = [n for n, ops in zip(sorted(bodies), plan) if ops == ['loop']]
        pongs = [f for f in frames if f['opcode'] == 10]
        if state.get('loop_events') is not None and 'ping' not in state['loop_events']:
            c.fail('C18: the Ping that was available was not delivered (loop events %s)' % state['loop_events'])
        if len(pongs) != 1:
            c.fail('C18: %d Pongs written for one Ping' % len(pongs))
        cls.add('stalled' if any(s_[2] == 'blocked:peer-not-reading' for s_ in sched.switches) else 'not-stalled')
    if 'C14' in tags:
        # the Ping handed to the loop thread is answered by exactly one Pong with the same payload, whatever the other threads were doing
        # at that moment (holding the write lock, in the middle of a sendall, ...)
        pongs = [f for f in frames if f['opcode'] == 10]
        pings = [m for n_ in sent for m in sent[n_] if m[0] == 10 and state.get('loop_events') is not None]
        if state.get('loop_events') is not None and 'ping' not in state['loop_events']:
            c.fail('C14: the Ping was not delivered (loop events %s)' % state['loop_events'])
        if len(pongs) != len(pings):
            c.fail('C14: %d Pongs written for %d Pings while another thread was sending (loop events %s)'
                   % (len(pongs), len(pings), state.get('loop_events')), sig='C14: Ping not answered exactly once (threads)')
        for f, m in zip(pongs, pings):
            c.prove(eq_items(f['payload'], m[1]),
                    'C14: Pong payload differs from the Ping payload (threads)')
        cls.add('ping-answered')
    if 'C19' in tags:
        # nothing but the CONNECT request may be written to the proxy socket until its answer has been read completely --
        # whichever thread tries
        consumed, answer_at = 0, None
        for i, e in enumerate(w.log):
            if e[0] == 'recv':
                consumed += e[2]
                if answer_at is None and consumed >= len(PROXY_ANSWER):
                    answer_at = i
        early = [(i, e) for i, e in enumerate(w.log) if e[0] in ('write-part', 'write') and (answer_at is None or i < answer_at)]
        loop_thread = [n for n, ops in zip(sorted(bodies), plan) if ops == ['loop']]
        own = []
        for i, e in early:
            who = e[3] if e[0] == 'write-part' else None
            if e[0] == 'write-part' and who in loop_thread:
                own.extend(e[2])
                continue
            c.fail('C19: %d bytes written to the proxy socket by thread %s before the proxy had answered' % (len(items_of(e[2])), who),
                   sig='C19: write before the proxy answered (other thread)')
        if own and (own[:8] != list(b'CONNECT ') or own[-4:] != [13, 10, 13, 10] or own.count(10) != own[:].count(13)
                    or _count_sub(own, [13, 10, 13, 10]) != 1):
            c.fail('C19: the loop thread wrote something other than one CONNECT request before the proxy answered')
        # (how the early send is refused - WebSocketUnavailable, or an AttributeError before a session exists - is not
        #  C19's business)
        cls.add('answer-read' if answer_at is not None else 'no-answer')
    if 'C12' in tags:
        # (checks that no recorded finding touches come first; the two Close-related ones are reported and passed over
        #  when they match a recorded finding)
        closes = [i for i, o in enumerate(ops_wire) if o == 8]
        for n, res in results.items():
            for op, outcome, wrote in res:
                if outcome.startswith('exception'):
                    c.fail('C12: %s in thread %s raised %s (not a WebSocketError)' % (op, n, outcome))
                if outcome == 'ws-error' and wrote:
                    c.fail('C12: %s in thread %s raised a WebSocketError but had written %d byte chunks' % (op, n, wrote))
        if len(closes) > 1:
            # which thread wrote the second Close, and what did it see when it took the write lock for that write?
            who, snap = _writer_of_frame(parts, frames, closes[1])
            c.fail('C12: %d Close frames on the wire (second by %s; when it took the write lock: %s)' % (len(closes), who, snap),
                   sig='C12: two Close frames; second writer took the lock with closing=%s close_on_wire=%s close_in_progress=%s closer_at=%s'
                       % (snap and snap.get('closing'), snap and snap.get('close_on_wire'), snap and snap.get('close_in_progress'),
                          snap and snap.get('closer_at')), soft=True)
        if closes:
            for j in range(closes[0] + 1, len(frames)):
                if ops_wire[j] in (0, 1, 2):
                    who, snap = _writer_of_frame(parts, frames, j)
                    c.fail('C12: data frame written after the Close frame (by %s; when it took the write lock: %s)' % (who, snap),
                           sig='C12: data after Close; sender took the lock with closing=%s close_on_wire=%s close_in_progress=%s closer_at=%s'
                               % (snap and snap.get('closing'), snap and snap.get('close_on_wire'), snap and snap.get('close_in_progress'),
                                  snap and snap.get('closer_at')), soft=True)
                    break
        cls.add('closes:%d' % len(closes))
        cls.add('wire:' + ''.join(str(o) for o in ops_wire))
    return {'cls': sorted(cls), 'sample': {'threads': plan, 'wire_opcodes': ops_wire,
                                           'switches': [s for s in sched.switches][:8]},
            'observe': {'wire': ops_wire, 'results': {n: [(r[0], r[1]) for r in v] for n, v in sorted(results.items())},
                        'switches': [list(s) for s in sched.switches]}}


def _writer_of_frame(parts, frames, idx):
    """thread that wrote the first byte of frame idx"""
    start = frames[idx]['start']
    pos = 0
    for e in parts:
        if pos <= start < pos + len(e[2]) or (len(e[2]) == 0 and pos == start):
            return e[3], e[4]
        pos += len(e[2])
    return None, None
