"""
C15 (H-timer-step): ONE housekeeping pass of the real `WebsocketSession._regular` from an ARBITRARY timer state.

The bounded explorations of checks/timers.py run K loop iterations from Ready.  This harness is the inductive step that
carries their conclusions to sessions of any length: the session's timer state (`_poll_start`, `_next_ping`, `_last_pong`,
`WebSocket.sent_close_time`, the closing flag) is made symbolic and constrained only by the representation invariant INV that
every housekeeping pass establishes; the real `_regular(poll, ping_rate, ping_timeout, close_timeout)` then runs ONCE at a
symbolic session time tau (tau_prev <= tau <= tau_prev + poll: a selector wait lasts at most `poll`), and the solver decides

  * Poll is yielded  <=>  tau - poll_start >= p ;  then p <= tau - poll_start < 2p (the cadence clause, for ANY history);
  * an automatic Ping is written  <=>  r > 0, a multiple of r lies strictly between the last Ping (or Ready) and tau, and the
    client is not closing; never otherwise;
  * Unresponsive + forced end  <=>  t set and tau - last_pong > t ;
  * forced end by the close timeout  <=>  c set, a Close was sent at s and tau >= s + c ; then tau <= s + c + p ;
  * INV holds again afterwards (so the step can be repeated), nothing else of the timer state changed.

INV (tau_prev = session time of the previous pass; all reals):
  0 <= poll_start <= tau_prev  and  tau_prev - poll_start < p
  r > 0:  next_ping = k*r for an integer k >= 0,  last_ping <= tau_prev <= next_ping,  next_ping - r < last_ping or next_ping = last_ping = 0 ...
          (exactly: next_ping is the smallest multiple of r that is >= last_ping)
  0 <= last_pong <= tau_prev ;  sent_close is None or 0 <= sent_close <= tau
  no timeout was already due at tau_prev (else the session would have ended there).
Base case: `_on_ready` sets last_pong = next_ping = 0, poll_start None at tau = 0 - covered by the variant `at_ready`.
Floats are idealised as reals.  ping_rate: a concrete grid, or (r='sym') a symbolic real with next_ping = k*r, k a symbolic integer.
"""
import z3
from .common import *
from symlomond.engine import SymReal, _r

T0 = 1700000000


def R(x):
    if isinstance(x, z3.ExprRef):
        return x
    if isinstance(x, SymReal):
        return x.e
    return _r(x)


def run_step(c, P):
    L = lomond()
    from lomond.session import WebsocketSession
    import lomond.session as SES
    w = new_world()
    ws = L.WebSocket('ws://example.com/')
    s = WebsocketSession(ws)
    ws.state.session = s
    sock = env._PlainSocket(w)
    sock.connected = True
    s._sock = sock
    s._ready = True
    sym = c.concrete is None
    at_ready = P.get('at_ready', False)

    def real(name, lo=None, hi=None):
        v = c.real(name)
        if sym:
            cs = []
            if lo is not None:
                cs.append(R(v) >= R(lo))
            if hi is not None:
                cs.append(R(v) <= R(hi))
            if cs:
                c.assume(z3.And(cs))
        return v

    # ---- parameters ---------------------------------------------------------------------------
    p = real('poll')
    if sym:
        c.assume(R(p) > 0)
    rmode = P.get('r', 1)
    if rmode == 'sym':
        r = real('ping_rate')
        if sym:
            c.assume(z3.And(R(r) > 0, R(r) <= 100000))
    else:
        r = rmode
    tk = ['sym', 'none', 'zero'][c.choose(3, 'tkind')]
    t = real('ping_timeout') if tk == 'sym' else (None if tk == 'none' else 0)
    if tk == 'sym' and sym:
        c.assume(R(t) > 0)
    ck = ['sym', 'none', 'zero'][c.choose(3, 'ckind')]
    ct = real('close_timeout') if ck == 'sym' else (None if ck == 'none' else 0)
    if ck == 'sym' and sym:
        c.assume(R(ct) > 0)
    # ---- pre-state under INV ----------------------------------------------------------------
    if at_ready:
        # right after the Ready event: _on_ready ran at tau = 0
        s._start_time = T0
        w.clock = T0
        s._on_ready()
        tau_prev = 0
        tau = 0
        ps = None
        lp = 0           # "last ping" = Ready
        n = s._next_ping
        lpong = s._last_pong
        sc = None
        closing = False
    else:
        tau_prev = real('tau_prev', 0)
        tau = real('tau', 0)
        if sym:
            c.assume(z3.And(R(tau) >= R(tau_prev), R(tau) <= R(tau_prev) + R(p)))
        ps = real('poll_start', 0)
        if sym:
            c.assume(z3.And(R(ps) <= R(tau_prev), R(tau_prev) - R(ps) < R(p)))
        lp = real('last_ping', 0)
        if sym:
            c.assume(R(lp) <= R(tau_prev))
        if r:
            # next_ping = smallest multiple of r that is >= last_ping, and not yet strictly passed at tau_prev
            k = z3.Int('k_next') if sym else None
            if sym:
                c.inputs.append(('k_next', k))
                nexpr = z3.ToReal(k) * R(r)
                c.assume(z3.And(k >= 0, nexpr >= R(lp), nexpr - R(r) < R(lp), R(tau_prev) <= nexpr))
                n = SymReal(nexpr)
            else:
                n = engine.Q(c.concrete.get('k_next', 0)) * (r if not isinstance(r, float) else engine.Q(r))
        else:
            n = real('next_ping', 0)
        lpong = real('last_pong', 0)
        if sym:
            c.assume(R(lpong) <= R(tau_prev))
            if tk == 'sym':
                c.assume(R(tau_prev) - R(lpong) <= R(t))          # not already unresponsive at the previous pass
        closing = bool(c.choose(2, 'closing'))
        if closing:
            sc = real('sent_close', 0)
            if sym:
                c.assume(R(sc) <= R(tau))
                if ck == 'sym':
                    # not already due at the previous pass (if the Close had been sent by then)
                    c.assume(z3.Or(R(sc) > R(tau_prev), R(tau_prev) < R(sc) + R(ct)))
        else:
            sc = None
        s._start_time = T0
        s._poll_start = ps
        s._next_ping = n
        s._last_pong = lpong
        ws.state.closing = closing
        ws.state.sent_close_time = sc
        w.clock = T0 + tau
    c.notes['scenario'] = dict(tkind=tk, ckind=ck, closing=closing, r=str(rmode), at_ready=at_ready)
    # ---- one pass of the real code ------------------------------------------------------------
    names = []
    forced = None
    exc = None
    try:
        for ev in s._regular(p, r, t, ct):
            names.append(ev.name)
    except SES._ForceDisconnect as e:
        forced = e
    except Exception as e:
        exc = e
    if exc is not None:
        c.fail('C15: housekeeping pass raised %r' % (exc,))
    pings = [e for e in w.log if e[0] in ('write', 'write-failed')]
    cls = set(['t:' + tk, 'c:' + ck])
    # ---- obligations -----------------------------------------------------------------------
    # (1) Poll
    if ps is None:
        poll_due = True
    else:
        poll_due = c.branch(R(tau) - R(ps) >= R(p))
    got_poll = 'poll' in names
    if got_poll != poll_due:
        c.fail('C15: Poll %s although %s than the poll interval has passed since the last Poll'
               % (('yielded', 'less') if got_poll else ('not yielded', 'no less')), sig='C15 step: Poll cadence')
    if names.count('poll') > 1:
        c.fail('C15: two Polls in one housekeeping pass')
    if got_poll:
        cls.add('poll')
        if names[0] != 'poll':
            c.fail('C15: Poll is not the first event of the pass')
        if ps is not None:
            c.prove(z3.And(R(tau) - R(ps) >= R(p), R(tau) - R(ps) < 2 * R(p)),
                    'C15: Poll gap outside [p, 2p)', sig='C15 step: Poll gap')
        c.prove(R(s._poll_start) == R(tau), 'C15: the Poll instant was not recorded')
    else:
        c.prove(R(s._poll_start) == R(ps), 'C15: poll state changed without a Poll')
    c.prove(R(tau) - R(s._poll_start) < R(p), 'C15 step: invariant (time since last Poll < p) not re-established')
    # (2) automatic Ping
    if r:
        ping_due = c.branch(R(tau) > R(n))
    else:
        ping_due = False
    if len(pings) > 1:
        c.fail('C15: more than one write in a housekeeping pass')
    if pings:
        cls.add('ping')
        it = symdata.items_of(pings[0][2])
        if not (isinstance(it[0], int) and it[0] == 0x89):
            c.fail('C15: housekeeping wrote something that is not a Ping frame')
        if not r:
            c.fail('C15: automatic Ping written although ping_rate is 0', sig='C15 step: ping with r=0')
        if closing:
            c.fail('C15: automatic Ping written while closing', sig='C15 step: ping while closing')
        if not ping_due:
            c.fail('C15: automatic Ping although no multiple of ping_rate was passed since the last one (twice in one period)',
                   sig='C15 step: ping not due')
    elif ping_due and not closing:
        c.fail('C15: a multiple of ping_rate was passed without an automatic Ping at this housekeeping instant', sig='C15 step: ping missing')
    if r:
        n2 = s._next_ping
        if ping_due:
            # smallest multiple of r that is >= tau
            if sym:
                k2 = z3.Int('k_after')
                c.solver.add(z3.And(z3.ToReal(k2) * R(r) >= R(tau), (z3.ToReal(k2) - 1) * R(r) < R(tau)))
                c.prove(R(n2) == z3.ToReal(k2) * R(r), 'C15 step: next ping instant is not the next multiple of ping_rate at or after now',
                        sig='C15 step: next_ping')
            else:
                # concrete replay: the same obligation, evaluated exactly on rationals
                import math
                from fractions import Fraction
                fr, ftau = Fraction(engine.Q(r)), Fraction(engine.Q(tau))
                c.prove(R(n2) == R(math.ceil(ftau / fr) * fr), 'C15 step: next ping instant is not the next multiple of ping_rate at or after now',
                        sig='C15 step: next_ping')
            c.prove(R(n2) >= R(tau), 'C15 step: next ping instant lies in the past', sig='C15 step: next_ping')
        else:
            c.prove(R(n2) == R(n), 'C15 step: ping schedule changed without a Ping being due')
    # (3) ping timeout
    unresp_due = False
    if tk == 'sym':
        unresp_due = c.branch(R(tau) - R(lpong) > R(t))
    got_unresp = 'unresponsive' in names
    if got_unresp != unresp_due:
        c.fail('C15: Unresponsive %s although %s than ping_timeout has passed since Ready / the last Pong (ping_timeout kind: %s)'
               % ((('yielded', 'no more') if got_unresp else ('not yielded', 'more')) + (tk,)), sig='C15 step: unresponsive')
    if got_unresp:
        cls.add('unresponsive')
        if forced is None:
            c.fail('C15: Unresponsive not followed by the forced end of the session')
        if names[-1] != 'unresponsive':
            c.fail('C15: events after Unresponsive in the same pass')
    # (4) close timeout
    if not got_unresp:
        close_due = False
        if ck == 'sym' and sc is not None:
            close_due = c.branch(R(tau) >= R(sc) + R(ct))
        if (forced is not None) != close_due:
            c.fail('C15: session %s although close_timeout (%s) %s since the Close was sent'
                   % (('forced down', ck, 'has not elapsed') if forced is not None else ('not forced down', ck, 'has elapsed')),
                   sig='C15 step: close timeout')
        if forced is not None:
            cls.add('close-timeout')
            c.prove(R(tau) <= R(sc) + R(ct) + R(p), 'C15: forced end later than close_timeout + poll after the Close', sig='C15 step: close timeout late')
    # (5) frame conditions
    c.prove(R(s._last_pong) == R(lpong), 'C15 step: the last-Pong instant was changed by a housekeeping pass')
    if s._start_time != T0:
        c.fail('C15 step: session start time changed')
    if sorted(set(names) - {'poll', 'unresponsive'}):
        c.fail('C15: unexpected events from a housekeeping pass: %r' % names)
    return {'cls': sorted(cls), 'sample': {'events': names, 'forced': forced is not None, 'ping': bool(pings)},
            'observe': {'events': names, 'forced': forced is not None, 'ping': len(pings)}}
