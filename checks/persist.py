"""
C16 (H-persist): the real persist() over a real WebSocket on the stub environment.

Per attempt a solver variable picks the outcome {resolve fails, connect refused, rejected, drop before Ready,
Ready then drop, Ready then graceful close, protocol error}; random() is a symbolic Real u in [0,1) (fresh per
call); min_wait <= max_wait are symbolic reals; exit_event.wait(d) records d and returns a symbolic bool.
"""
import z3
from .common import *
from symlomond.engine import SymReal, _r

OUTCOMES = ['resolve-fail', 'refused', 'rejected', 'drop-before-ready', 'ready-drop', 'ready-close', 'protocol-error']
REJECTIONS = [
    b'HTTP/1.1 401 Unauthorized\r\n\r\n',
    b'HTTP/1.1 503 Service Unavailable\r\nRetry-After: 120\r\nContent-Length: 0\r\nConnection: close\r\n\r\n',
    b'HTTP/1.1 429 Too Many Requests\r\nRetry-After: 86400\r\nX-RateLimit-Reset: 1700090000\r\nX-RateLimit-Remaining: 0\r\n\r\n',
    b'HTTP/1.1 301 Moved Permanently\r\nLocation: ws://example.org/\r\nRetry-After: Fri, 31 Dec 1999 23:59:59 GMT\r\nKeep-Alive: timeout=600, max=1000\r\n\r\n',
    b'HTTP/1.1 200 OK\r\nRefresh: 900\r\nCache-Control: max-age=31536000\r\nExpires: 0\r\nAge: 7200\r\n\r\n',
]
REACHES_READY = {'ready-drop', 'ready-close', 'protocol-error'}


def run_persist(c, P):
    L = lomond()
    from lomond.persist import persist
    from lomond import events as EV
    w = new_world()
    K = P['K']
    outcomes = P.get('outcomes', OUTCOMES)
    # ---- symbolic configuration
    if P.get('sym_waits', True):
        mn = c.real('min_wait')
        mx = c.real('max_wait')
        if c.concrete is None:
            c.assume(z3.And(mn.e >= 0, mx.e >= mn.e, mx.e <= 100000))
    else:
        mn, mx = P.get('min_wait', 5), P.get('max_wait', 30)
    draws = []

    def rnd():
        u = c.real('u%d' % len(draws))
        if c.concrete is None:
            c.assume(z3.And(u.e >= 0, u.e < 1))
        draws.append(u)
        return u
    w.random = rnd
    waits = []

    class ExitEvent(object):
        def wait(self, d):
            waits.append(d)
            if len(waits) >= K:
                return True
            return bool(c.boolean('exit%d' % len(waits))) if P.get('sym_exit', True) else False
    produced = []          # objects yielded by connect(), in order
    conn_kwargs = []
    chosen = []

    class WS(L.WebSocket):
        def connect(self, *a, **k):
            conn_kwargs.append((a, dict(k)))
            o = outcomes[c.choose(len(outcomes), 'outcome')]
            chosen.append(o)
            w.fault_hook = None
            idx = w.conn_count
            if o == 'resolve-fail':
                w.fault_hook = _Always('getaddrinfo')
            elif o == 'refused':
                w.fault_hook = _Always('connect')
            elif o == 'rejected':
                # a rejection as servers send them: the status and advisory headers are drawn by a solver variable
                rej = REJECTIONS[c.choose(len(REJECTIONS), 'rejection')]
                w.scripts[idx] = Script(lambda w_, s_, rej=rej: list(rej), end='eof')
            elif o == 'drop-before-ready':
                w.scripts[idx] = Script(lambda w_, s_: list(b'HTTP/1.1 101 Swi'), end='eof')
            elif o == 'ready-drop':
                w.scripts[idx] = Script(hconn.server_stream([0x81, 0x01, 0x61]), end='error')
            elif o == 'ready-close':
                w.scripts[idx] = Script(hconn.server_stream([0x88, 0x02, 0x03, 0xE8]), end='eof')
            elif o == 'proxy-refused':
                w.fault_hook = _Always('connect')
            elif o == 'proxy-407':
                w.scripts[idx] = Script(lambda w_, s_: list(b'HTTP/1.1 407 Proxy Authentication Required\r\nProxy-Authenticate: Basic realm="x"\r\n\r\n'), end='eof')
            elif o == 'proxy-reset':
                # the proxy accepts the TCP connection and resets it during the CONNECT exchange (a raw socket error from recv)
                w.scripts[idx] = Script(lambda w_, s_: list(b'HTTP/1.1 2'), end='error')
            elif o == 'proxy-eof':
                w.scripts[idx] = Script(lambda w_, s_: [], end='eof')
            elif o == 'protocol-error':
                w.scripts[idx] = Script(hconn.server_stream([0x83, 0x00]), end='eof')
            gen = L.WebSocket.connect(self, *a, **k)

            def rec():
                for ev in gen:
                    produced.append(ev)
                    yield ev
            return rec()
    ws = WS('ws://example.com/', proxies={'http': 'http://proxy.local:3128'}) if P.get('proxy') else WS('ws://example.com/')
    poll, pr, pt = P.get('poll', 7), P.get('ping_rate', 0), P.get('ping_timeout', None)
    got = []
    app_closed = []
    exit_ev = ExitEvent()
    ended = False
    n = 0
    try:
        for ev in persist(ws, poll=poll, min_wait=mn, max_wait=mx, ping_rate=pr, ping_timeout=pt, exit_event=exit_ev):
            got.append(ev)
            if P.get('app_close') and ev.name in ('connecting', 'connected', 'ready') and c.choose(2, 'appclose'):
                # the application reacts to an event by closing (persist must still back off and reconnect)
                ws.close()
                app_closed.append(ev.name)
            n += 1
            if n > 40 * K:
                c.fail('C16: persist() produced more than %d events for %d attempts' % (40 * K, K))
        ended = True
    except env.LoopBudget as e:
        raise EngineLimit('loop budget in persist harness: %s' % e)
    except Exception as e:
        c.fail('C16: exception escaped persist(): %r' % (e,))
    c.notes['scenario'] = dict(outcomes=chosen, events=[e.name for e in got])
    # ---- oracle
    backoffs = [e for e in got if e.name == 'back_off']
    others = [e for e in got if e.name != 'back_off']
    if len(others) != len(produced) or any(a is not b for a, b in zip(others, produced)):
        c.fail('C16: connection events are not passed through unchanged and in order')
    for a, k in conn_kwargs:
        if a or k.get('poll') != poll or k.get('ping_rate') != pr or k.get('ping_timeout') != pt or len(k) != 3:
            c.fail('C16: connect() received %r %r instead of the caller settings' % (a, k))
    # one BackOff after every attempt, then wait(delay)
    names = [e.name for e in got]
    attempts = len(conn_kwargs)
    if len(backoffs) != attempts or len(waits) != attempts or len(draws) != attempts:
        c.fail('C16: %d attempts, %d BackOff events, %d waits, %d random draws' % (attempts, len(backoffs), len(waits), len(draws)))
    # structure: each attempt's events end with a terminal event followed directly by its BackOff
    pos = 0
    k = 0
    for i in range(attempts):
        # events of attempt i
        j = pos
        while j < len(got) and got[j].name != 'back_off':
            j += 1
        seg = got[pos:j]
        if j >= len(got):
            c.fail('C16: attempt %d not followed by a BackOff' % (i + 1))
        if not seg or seg[-1].name not in ('connect_fail', 'disconnected'):
            c.fail('C16: BackOff not directly after the end of attempt %d' % (i + 1))
        reached = any(e.name == 'ready' for e in seg)
        k = 0 if reached else k + 1
        bo = got[j]
        d = bo.delay
        rw = _r(mx) - _r(mn)
        win = z3.If(rw <= 2 ** k, rw, z3.RealVal(2 ** k))
        limit = _r(mn) + win
        c.prove(_r(d) >= _r(mn), 'C16: BackOff delay below min_wait (attempt %d)' % (i + 1))
        c.prove(_r(d) <= _r(mx), 'C16: BackOff delay above max_wait (attempt %d)' % (i + 1))
        c.prove(_r(d) <= limit, 'C16: BackOff delay above min_wait + min(max_wait - min_wait, 2^%d) after %d consecutive '
                                'attempts without Ready' % (k, k), sig='C16: delay above the randomised upper limit')
        # the limit is the least upper bound: delay == min_wait + u * window exactly
        c.prove(_r(d) == _r(mn) + _r(draws[i]) * win,
                'C16: BackOff delay is not min_wait + u * min(max_wait - min_wait, 2^%d) (k=%d consecutive attempts without Ready; '
                'window too small or not reset)' % (k, k), sig='C16: back-off window differs from min(max_wait-min_wait, 2^k)')
        # (the reported delay is the time actually waited)
        if d is not waits[i] and not _same_real(c, d, waits[i]):
            c.fail('C16: BackOff.delay differs from the delay passed to exit_event.wait')
        pos = j + 1
    if pos != len(got):
        c.fail('C16: events after the last BackOff')
    # the generator ends iff wait returned True
    if not ended:
        c.fail('C16: persist() did not end after exit_event.wait() returned True')
    cls = ['attempts:%d' % attempts] + ['outcome:' + o for o in set(chosen)]
    return {'cls': cls, 'sample': {'outcomes': chosen, 'events': names},
            'observe': {'outcomes': chosen, 'events': names}}


class _Always(object):
    """fault hook: the next occurrence of `op` fails with a socket error (deterministic outcome selector)"""

    def __init__(self, op):
        self.op = op
        self.injected = []

    def __call__(self, op, sock):
        import socket as _s
        if op == self.op:
            self.injected.append((op, 0, 'oserror'))
            raise _s.error(111, 'injected: %s failed' % op)


def _same_real(c, a, b):
    try:
        c.prove(_r(a) == _r(b), 'C16: BackOff.delay differs from the delay passed to exit_event.wait')
        return True
    except TypeError:
        return a == b
