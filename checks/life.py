"""
Lifecycle harness (H-conn with a nondeterministic application, server script, transport end and faults).
Serves C07 (well-formed finite event sequence), C08 (closing handshake), C09 (transport failures),
C13 (abandoning the loop releases the socket).

Everything the environment or the application decides is a solver variable:
  * which frames the server sends (grammar of small frames with symbolic contents, or raw symbolic bytes),
  * how the transport ends (EOF / socket error / non-socket exception) and after how many bytes,
  * which socket call fails (symbolic fault injection),
  * at which event the application sends / closes / abandons, and how.
"""
import z3
from .common import *
from symlomond.symdata import items_of, eq_items, mk_bytes, mk_str
from symlomond.hconn import Abandon

DATA_OPS = (0, 1, 2)


# ---------------------------------------------------------------------------------------------
# server side
# ---------------------------------------------------------------------------------------------

def frame(op, payload, fin=True):
    n = len(payload)
    assert n < 126
    return [(0x80 if fin else 0) | op, n] + list(payload)


def gen_server(c, P):
    """returns (stream items, description list)"""
    S = P.get('server', {})
    kind = S.get('kind', 'grammar')
    desc = []
    if kind == 'raw':
        items = [c.byte('b%d' % i) for i in range(S['N'])]
        return items, ['raw%d' % S['N']]
    if kind == 'fixed':
        return list(bytes.fromhex(S['hex'])), ['fixed']
    # grammar: up to K frames, each chosen by a solver variable
    alphabet = S.get('alphabet', ['text', 'ping', 'close', 'close0'])
    K = S['K']
    items = []
    for i in range(K):
        k = c.choose(len(alphabet) + (1 if S.get('may_stop', True) else 0), 'frame')
        if k == len(alphabet):
            break
        a = alphabet[k]
        desc.append(a)
        if S.get('close_is_last') and desc[:-1] and desc[-2].startswith('close'):
            # a conforming server sends nothing after its Close (what a client does with such frames is a don't-care region)
            desc.pop()
            break
        if a == 'text':
            b = c.byte('t%d' % i)
            if c.concrete is None:
                c.assume(z3.ULT(b.e, 0x80))
            items += frame(1, [b])
        elif a == 'binary':
            items += frame(2, [c.byte('d%d' % i)])
        elif a == 'ping':
            items += frame(9, [c.byte('p%d' % i)])
        elif a == 'pong':
            items += frame(10, [c.byte('q%d' % i)])
        elif a == 'close0':
            items += frame(8, [])
        elif a == 'close':
            code = c.int('code%d' % i, 16)
            if c.concrete is None:
                # valid close codes only (violations are C04's): 1000-1003, 1007-1011, the IANA-registered 1012 (Service Restart)
                # and 1013 (Try Again Later), 3000-4999
                e = code.e
                c.assume(z3.Or(z3.And(z3.UGE(e, 1000), z3.ULE(e, 1003)), z3.And(z3.UGE(e, 1007), z3.ULE(e, 1013)),
                               z3.And(z3.UGE(e, 3000), z3.ULE(e, 4999))))
                hi, lo = SymInt(z3.Extract(15, 8, e), 8), SymInt(z3.Extract(7, 0, e), 8)
            else:
                hi, lo = code >> 8, code & 255
            r = c.byte('r%d' % i)
            if c.concrete is None:
                c.assume(z3.ULT(r.e, 0x80))
            items += frame(8, [hi, lo, r])
        elif a == 'close123':
            # the longest legal Close: 2-byte code + 123-byte reason
            r0 = c.byte('r%da' % i)
            if c.concrete is None:
                c.assume(z3.ULT(r0.e, 0x80))
            # (symbolic byte last: the incremental validator state stays concrete until then)
            items += frame(8, [0x03, 0xE8] + [0x72] * 122 + [r0])
        elif a == 'trickle':
            # event-less bytes: a non-final text fragment of 300 bytes (16-bit length form) that arrives byte by byte and never completes
            items += [0x01, 0x7E, 0x01, 0x2C] + [0x61] * 280
        elif a == 'full_buffer':
            # a binary frame that is EXACTLY one 64 KiB receive buffer on the wire (4-byte header + 65532 payload bytes)
            items += [0x82, 0x7E, 0xFF, 0xFC] + [c.byte('fb%d' % i)] + [(k * 7 + 3) & 0xFF for k in range(65531)]
        elif a == 'frag_open':
            # the first fragment of a data message that the server never finishes (RFC 6455 5.4/5.5: control frames - Close included -
            # may be injected in the middle of a fragmented message)
            items += frame(2, [c.byte('fo%d' % i)], fin=False)
        elif a == 'frag':
            items += frame(2, [c.byte('f%da' % i)], fin=False) + frame(0, [c.byte('f%db' % i)])
        else:
            raise ValueError(a)
    return items, desc


HANDSHAKES = {
    'ok': None,
    'status200': b'HTTP/1.1 200 OK\r\nUpgrade: websocket\r\n',
    'no-upgrade': b'HTTP/1.1 101 Switching Protocols\r\nConnection: Upgrade\r\n',
    'garbage': b'\x00\xff garbage \r\n',
}


def server_stream(c, w, P, frames):
    hs = P.get('handshake', 'ok')
    if hs == 'sym':
        names = P.get('handshakes', ['ok', 'status200', 'no-upgrade', 'wrong-accept', 'garbage', 'oversize'])
        hs = names[c.choose(len(names), 'hs')]
    w.notes['hs_kind'] = hs

    def f(w_, sock):
        if hs == 'ok':
            # (compress: permessage-deflate offered by the client and accepted by the server; zlib is the abstract codec of C06)
            h = hconn.reply_101(w_, sock, b'Sec-WebSocket-Extensions: permessage-deflate\r\n' if P.get('compress') else b'')
        elif hs == 'wrong-accept':
            h = list(b'HTTP/1.1 101 Switching Protocols\r\nUpgrade: websocket\r\nSec-WebSocket-Accept: '
                     b'AAAAAAAAAAAAAAAAAAAAAAAAAAA=\r\n\r\n')
        elif hs == 'oversize':
            h = list(b'HTTP/1.1 101 Switching Protocols\r\nX: ' + b'a' * 16400)
        else:
            h = list(HANDSHAKES[hs] + b'\r\n')
        w_.notes['hs_len'] = len(h)
        return h + list(frames)
    return f


# ---------------------------------------------------------------------------------------------
# application side
# ---------------------------------------------------------------------------------------------

class App(object):
    def __init__(self, c, w, P):
        self.c = c
        self.w = w
        A = P.get('app', {})
        self.actions = A.get('actions', [])
        self.left = A.get('max_actions', 0)
        self.only_events = A.get('only_events')          # restrict to these event names
        self.calls = []          # dict(idx, ev, action, outcome, exc, wrote, attempted)
        self.close_args = None
        self.n = 0

    def __call__(self, idx, ev, ws, gen):
        if self.left <= 0 or not self.actions:
            return
        if self.only_events is not None and ev.name not in self.only_events:
            return
        k = self.c.choose(1 + len(self.actions), 'act')
        if k == 0:
            return
        act = self.actions[k - 1]
        self.left -= 1
        self.n += 1
        w = self.w
        before = len([e for e in w.log if e[0] in ('write', 'write-failed')])
        w.log.append(('app-begin', idx, act))
        call = dict(idx=idx, ev=ev.name, action=act, outcome='ok', exc=None, log=len(w.log) - 1)
        self.calls.append(call)
        if act.startswith('abandon'):
            call['outcome'] = 'abandon'
            raise Abandon(act)
        try:
            if act == 'send_text':
                ch = self.c.int('at%d' % self.n, 7)
                ws.send_text(mk_str([ch]) if self.c.concrete is None else chr(ch))
            elif act == 'send_binary':
                ws.send_binary(mk_bytes([self.c.byte('ab%d' % self.n)]))
            elif act == 'send_ping':
                ws.send_ping(mk_bytes([self.c.byte('ap%d' % self.n)]))
            elif act == 'close':
                code = self.c.int('acode%d' % self.n, 16)
                reason = mk_bytes([self.c.byte('areason%d' % self.n)])
                call['close_args'] = (code, reason)
                ws.close(code, reason)
            elif act == 'close_long':
                code = self.c.int('acode%d' % self.n, 16)
                reason = b'R' * 123
                call['close_args'] = (code, reason)
                ws.close(code, reason)
            elif act == 'close_default':
                call['close_args'] = (1000, b'goodbye')
                ws.close()
            else:
                raise ValueError(act)
        except Exception as e:
            call['outcome'] = 'raised'
            # keep the exception object but not its traceback: the traceback references the consumer frame and
            # with it the generator, which would keep an abandoned generator alive (a harness artefact)
            e.__traceback__ = None
            if e.__context__ is not None:
                e.__context__.__traceback__ = None
            if e.__cause__ is not None:
                e.__cause__.__traceback__ = None
            call['exc'] = e
        w.log.append(('app-end', idx, act))
        after = [e for e in w.log if e[0] in ('write', 'write-failed')]
        call['attempted'] = len(after) - before
        call['wrote'] = len([e for e in w.log[call['log']:] if e[0] == 'write'])


# ---------------------------------------------------------------------------------------------
def run_life(c, P):
    L = lomond()
    from lomond import errors
    w = new_world()
    frames, desc = gen_server(c, P)
    end = P.get('end', 'eof')
    if end == 'sym':
        ends = P.get('ends', ['eof', 'error', 'exception'])
        end = ends[c.choose(len(ends), 'end')]
    cut = None
    stream_fn = server_stream(c, w, P, frames)
    if P.get('cut_anywhere'):
        # the transport ends after a symbolic number of bytes of the whole server stream
        base = stream_fn

        def stream_fn(w_, sock, base=base):
            full = base(w_, sock)
            k = c.choose(len(full) + 1, 'cutat')
            w_.notes['cut_at'] = k
            w_.notes['full_len'] = len(full)
            return full[:k]
    w.default_script = HsThenCuts(w, stream_fn, P.get('cuts', 'one'), end=end, silent_waits=P.get('silent_waits', 0))
    w.n_addrs = P.get('n_addrs', 1)
    w.arrival_gap = P.get('arrival_gap', 0)
    if P.get('fault'):
        F = P['fault']
        w.fault_hook = env.SymFaults(F['ops'], F.get('kinds', ['oserror']), F.get('max', 1), F.get('skip'), sticky=F.get('sticky', ()))
    w.max_waits = P.get('max_waits', 60)
    wkw = {}
    if P.get('sym_agent'):
        # rarely used constructor options with text from every Unicode plane (one symbolic code point each)
        def cp(name):
            x = c.int(name, 21)
            if c.concrete is None:
                c.assume(z3.And(z3.ULE(x.e, 0x10FFFF), z3.UGE(x.e, 0x21), z3.Or(z3.ULT(x.e, 0xD800), z3.UGT(x.e, 0xDFFF)),
                                x.e != 0x7F, z3.Or(z3.ULT(x.e, 0x80), z3.UGT(x.e, 0xA0))))
                return mk_str([0x41, x, 0x5A])
            return 'A' + chr(x) + 'Z'
        wkw = dict(agent=cp('agent_cp'), protocols=[cp('proto_cp')])
    if P.get('compress'):
        wkw['compress'] = True
    ws = L.WebSocket(P.get('url', 'ws://example.com/'), **wkw)
    app = App(c, w, P)
    ck = dict(poll=1e9, ping_rate=0, ping_timeout=None, close_timeout=None, auto_pong=True)
    ck.update(P.get('connect', {}))
    if P.get('connect_options'):
        # rarely used values of the connect() options (a solver variable picks the set)
        opts = P['connect_options']
        ck.update(opts[c.choose(len(opts), 'connect_opts')])
    w.notes['ck'] = dict(ck)
    w.notes['server_desc'] = list(desc)
    if P.get('record_selector'):
        # observe selector.close() through the documented extension points (session_class / _selector_cls)
        from lomond.session import WebsocketSession
        from lomond import selectors as _sel

        class RecSel(_sel.PlatformSelector):
            def __init__(self, sock):
                w.notes['selector_created'] = w.notes.get('selector_created', 0) + 1
                _sel.PlatformSelector.__init__(self, sock)

            def close(self):
                w.notes['selector_closed'] = w.notes.get('selector_closed', 0) + 1
                _sel.PlatformSelector.close(self)

        class RecSession(WebsocketSession):
            _selector_cls = RecSel
        ck['session_class'] = RecSession
    mech = P.get('abandon_mechanism')
    rec = drive_with_mechanism(w, ws, ck, app, mech)
    hconn.scribble_receive_buffer(ws)
    c.notes['scenario'] = dict(events=rec.names(), server=desc, end=end,
                               calls=[(x['idx'], x['ev'], x['action'], x['outcome']) for x in app.calls],
                               faults=getattr(w.fault_hook, 'injected', None), hs=w.notes.get('hs_kind'))
    tags = set(P['tags'])
    cls = set()
    if 'C07' in tags:
        cls |= check_c07(c, w, rec, app, P)
    if 'C08' in tags:
        cls |= check_c08(c, w, rec, app, frames, ws, errors)
    if 'C09' in tags:
        cls |= check_c09(c, w, rec, app, ws, errors, end, P)
    if 'C13' in tags:
        cls |= check_c13(c, w, rec, app, ws, P)
    names = rec.names()
    return {'cls': sorted(cls) or ['_none'],
            'sample': {'server': desc, 'end': end, 'events': names, 'app': [(x['ev'], x['action'], x['outcome']) for x in app.calls],
                       'faults': getattr(w.fault_hook, 'injected', None)},
            'observe': {'events': names, 'wire': wire_summary(w),
                        'calls': [(x['ev'], x['action'], x['outcome'], type(x['exc']).__name__) for x in app.calls],
                        'closed': [s.closed for s in w.socks]}}


def drive_with_mechanism(w, ws, ck, app, mech):
    """the consumer loop written in the four shapes of C13 (only matters when the app abandons)"""
    from symlomond.hconn import Rec
    if mech in (None, 'break'):
        rec = hconn.drive(w, ws, ck, app)
        if getattr(rec, 'abandoned', False):
            gen = rec.gen
            rec.gen = None
            del gen            # break: the generator is dropped (CPython finalises it at once)
            import gc
            gc.collect()
        return rec
    if mech == 'gen.close':
        rec = hconn.drive(w, ws, ck, app)
        if getattr(rec, 'abandoned', False):
            rec.gen.close()
        return rec
    if mech == 'reconnect-then-close':
        # the usual retry idiom: connect() is called again on the same object BEFORE the abandoned generator is
        # finalised (events = ws.connect() rebinding, or an explicit old.close() afterwards)
        rec = hconn.drive(w, ws, ck, app)
        if getattr(rec, 'abandoned', False):
            rec.next_gen = ws.connect(**ck)        # not iterated: no new socket yet
            rec.gen.close()
        return rec
    if mech == 'raise':
        # exception raised inside the loop body propagates out of the for statement
        rec = Rec()

        class Boom(Exception):
            pass

        def body():
            for ev in ws.connect(**ck):
                idx = len(rec.events)
                rec.events.append(ev)
                w.log.append(('event', idx, ev.name))
                try:
                    app(idx, ev, ws, None)
                except Abandon:
                    raise Boom()
            rec.stopped = True
        try:
            body()
        except Boom:
            rec.abandoned = True
        except env.LoopBudget as e:
            rec.budget = str(e)
        except Exception as e:
            rec.exc = e
        import gc
        gc.collect()
        return rec
    if mech == 'with':
        rec = Rec()

        class Boom(Exception):
            pass
        try:
            with ws:
                for ev in ws.connect(**ck):
                    idx = len(rec.events)
                    rec.events.append(ev)
                    w.log.append(('event', idx, ev.name))
                    try:
                        app(idx, ev, ws, None)
                    except Abandon:
                        raise Boom()
                rec.stopped = True
        except Boom:
            rec.abandoned = True
        except env.LoopBudget as e:
            rec.budget = str(e)
        except Exception as e:
            rec.exc = e
        import gc
        gc.collect()
        return rec
    if mech == 'with-held':
        # the generator object stays referenced (events = ws.connect(...)) while an exception leaves `with ws:`
        rec = Rec()

        class Boom(Exception):
            pass
        events = ws.connect(**ck)
        rec.gen = events
        try:
            with ws:
                for ev in events:
                    idx = len(rec.events)
                    rec.events.append(ev)
                    w.log.append(('event', idx, ev.name))
                    try:
                        app(idx, ev, ws, None)
                    except Abandon:
                        raise Boom()
                rec.stopped = True
        except Boom:
            rec.abandoned = True
        except env.LoopBudget as e:
            rec.budget = str(e)
        except Exception as e:
            rec.exc = e
        rec.sockets_closed_after_with = [s_.closed for s_ in w.socks if s_.connected]
        return rec
    raise ValueError(mech)


# ---------------------------------------------------------------------------------------------
# C07
# ---------------------------------------------------------------------------------------------
AFTER_READY = ('text', 'binary', 'ping', 'pong', 'poll', 'closing', 'closed', 'unresponsive')
KNOWN = AFTER_READY + ('connecting', 'connect_fail', 'connected', 'ready', 'rejected', 'protocol_error', 'disconnected')


def check_c07(c, w, rec, app, P):
    names = rec.names()
    cls = set()
    if 'trickle' in w.notes.get('server_desc', ()):
        cls.add('trickled')
    if rec.exc is not None:
        c.fail('C07: exception escaped the event iterator: %r (events %s)' % (rec.exc, names))
    if rec.budget is not None:
        silent = w.default_script.end == 'silence'
        ck = w.notes.get('ck') or P.get('connect', {})
        # (a Close frame was sent - by the application or as the echo of a server Close - so close_timeout runs)
        armed = (ck.get('close_timeout') and (any(x['action'] in ('close', 'close_default') for x in app.calls) or 'closing' in names)) \
            or ck.get('ping_timeout')
        if silent and not armed:
            # a silent peer with no timeout armed: waiting forever is the specified behaviour
            return {'idle-on-silent-peer'}
        c.fail('C07: iteration did not terminate although %s (%s; events %s)'
               % ('a timeout was armed' if silent else 'the transport had ended', rec.budget, names[:12]),
               sig='C07: iteration did not terminate')
    if getattr(rec, 'abandoned', False):
        return {'abandoned'}
    if not names or names[0] != 'connecting':
        c.fail('C07: first event is not Connecting: %s' % names)
    if names.count('connecting') != 1:
        c.fail('C07: Connecting yielded %d times' % names.count('connecting'))
    terminals = [i for i, n in enumerate(names) if n in ('connect_fail', 'disconnected')]
    if len(terminals) != 1:
        c.fail('C07: %d terminal events (events %s)' % (len(terminals), names))
    if terminals[0] != len(names) - 1:
        c.fail('C07: event %s after the terminal event (events %s)' % (names[terminals[0] + 1], names))
    if not rec.stopped:
        c.fail('C07: iteration did not stop after the terminal event')
    if len(names) < 2:
        c.fail('C07: no terminal event')
    if names[-1] == 'connect_fail':
        if names != ['connecting', 'connect_fail']:
            c.fail('C07: ConnectFail not directly after Connecting: %s' % names)
        cls.add('connect_fail')
    else:
        if names[1] != 'connected':
            c.fail('C07: second event is %s, expected Connected or ConnectFail' % names[1])
        if names.count('connected') != 1:
            c.fail('C07: Connected yielded %d times' % names.count('connected'))
        if names.count('ready') > 1:
            c.fail('C07: Ready yielded more than once')
        ready_at = names.index('ready') if 'ready' in names else None
        for i, n in enumerate(names):
            if n not in KNOWN:
                c.fail('C07: unknown event %s' % n)
            if n in AFTER_READY and (ready_at is None or i < ready_at):
                c.fail('C07: %s event before Ready (events %s)' % (n, names))
        cls.add('ready' if ready_at is not None else 'no-ready')
        for n in ('rejected', 'protocol_error', 'closing', 'closed', 'text', 'ping'):
            if n in names:
                cls.add('has:' + n)
    # StopIteration afterwards
    if rec.gen is not None:
        try:
            next(rec.gen)
            c.fail('C07: iterator yields again after it stopped')
        except StopIteration:
            pass
    return cls


# ---------------------------------------------------------------------------------------------
# C08
# ---------------------------------------------------------------------------------------------

def wire_frames(c, w, sock_id=0, tag='C08'):
    out = []
    first = True
    for li, e in enumerate(w.log):
        if e[0] in ('write', 'write-failed') and e[1] == sock_id:
            if first:
                first = False      # the upgrade request
                continue
            try:
                fs = refmodel.decode_client_frames(items_of(e[2]))
            except refmodel.WireError as x:
                c.fail('%s: client wrote bytes that are not whole masked frames: %s' % (tag, x))
            if len(fs) != 1:
                c.fail('%s: one write carried %d frames' % (tag, len(fs)))
            f = fs[0]
            f['log'] = li
            f['failed'] = e[0] == 'write-failed'
            out.append(f)
    return out


def check_c08(c, w, rec, app, stream, ws, errors):
    cls = set()
    names = rec.names()
    if rec.exc is not None:
        c.fail('C08: exception escaped the event iterator: %r' % (rec.exc,))
    if rec.budget is not None:
        raise EngineLimit('loop budget in C08 harness: %s' % rec.budget)
    frames = wire_frames(c, w)
    ref = refmodel.ref_receive(stream)
    # R1/R2: global wire invariants
    closes = [i for i, f in enumerate(frames) if f['opcode'] == refmodel.CLOSE]
    if len(closes) > 1:
        c.fail('C08: %d Close frames written in one connection' % len(closes))
    if closes:
        later = [f for f in frames[closes[0] + 1:] if f['opcode'] in DATA_OPS]
        if later:
            c.fail('C08: data frame (opcode %d) written after the Close frame' % later[0]['opcode'])
    if ref.viol is not None:
        return {'stream-violation'}
    # walk the log in order with the oracle's own notion of the close-handshake state
    connected = False
    ready = False
    client_close = None        # None | 'app' | 'echo' | 'proto'
    client_close_args = None
    server_close_event = None  # 'closing' | 'closed'
    ended = False
    for call in app.calls:
        pass
    calls_by_log = {x['log']: x for x in app.calls}
    ev_by_idx = {}
    for li, e in enumerate(w.log):
        if e[0] == 'event':
            n = e[2]
            if n == 'connected':
                connected = True
            elif n == 'ready':
                ready = True
            elif n in ('disconnected', 'connect_fail'):
                ended = True
            elif n == 'closing':
                server_close_event = 'closing'
                if client_close in ('app',):
                    c.fail('C08: Closing event although the client had already sent its Close (expected Closed)')
            elif n == 'closed':
                server_close_event = 'closed'
                if client_close is None:
                    c.fail('C08: Closed event although the client never sent a Close (expected Closing)')
        elif e[0] == 'app-begin':
            call = calls_by_log[li]
            act = call['action']
            active = connected and not ended and client_close is None
            end_li = li
            while end_li < len(w.log) and not (w.log[end_li][0] == 'app-end' and w.log[end_li][1] == e[1]):
                end_li += 1
            faulted = any(x[0] == 'fault' for x in w.log[li:end_li])
            if act in ('close', 'close_default', 'close_long'):
                if active:
                    cls.add('app-close@' + call['ev'])
                    # exactly one Close frame with the given code and reason written during the call
                    mine = [f for f in frames if call['log'] < f['log'] and f['opcode'] == refmodel.CLOSE and
                            f['log'] < call['log'] + 10 ** 9]
                    if call['outcome'] != 'ok':
                        c.fail('C08: close() on a connected WebSocket raised %r' % (call['exc'],))
                    if call.get('attempted') != 1:
                        c.fail('C08: close() on a connected, active WebSocket performed %s writes (expected exactly one)'
                               % call.get('attempted'))
                    f = [f for f in frames if f['log'] > call['log']][0]
                    if f['opcode'] != refmodel.CLOSE:
                        c.fail('C08: close() wrote a frame with opcode %d' % f['opcode'])
                    code, reason = call['close_args']
                    want = [(code >> 8) & 0xFF if isinstance(code, int) else SymInt(z3.Extract(15, 8, code.e), 8),
                            code & 0xFF if isinstance(code, int) else SymInt(z3.Extract(7, 0, code.e), 8)] + items_of(reason)
                    c.prove(eq_items(f['payload'], want), 'C08: Close frame does not carry the code/reason given to close()')
                    client_close = 'app'
                    client_close_args = call['close_args']
                else:
                    if call.get('attempted'):
                        c.fail('C08: close() while %s wrote a frame' %
                               ('already closing' if client_close else 'not connected / ended'))
            else:
                if active:
                    cls.add('send-ok@' + call['ev'])
                    if faulted:
                        if call['outcome'] != 'raised' or not isinstance(call['exc'], errors.WebSocketError):
                            c.fail('C08: %s whose socket write failed did not raise a WebSocketError' % act)
                    elif call['outcome'] != 'ok':
                        c.fail('C08: %s on an open connection raised %r' % (act, call['exc']))
                    if call.get('attempted') != 1:
                        c.fail('C08: %s performed %s writes' % (act, call.get('attempted')))
                else:
                    cls.add('send-refused')
                    if call['outcome'] != 'raised' or not isinstance(call['exc'], errors.WebSocketError):
                        c.fail('C08: %s after close()/while not connected returned %s (%r) instead of raising WebSocketError'
                               % (act, call['outcome'], call['exc']),
                               sig='C08: send after close did not raise WebSocketError')
                    if call.get('attempted'):
                        c.fail('C08: refused %s still wrote to the socket' % act)
        elif e[0] in ('write', 'write-failed') and e[1] == 0:
            f = [f for f in frames if f['log'] == li]
            if f and f[0]['opcode'] == refmodel.CLOSE and client_close is None:
                client_close = 'echo' if server_close_event == 'closing' else 'proto'
    # delivery continues: events up to the server Close follow the reference
    evs = rec.events
    msg_idx = [i for i, e in enumerate(evs) if e.name in hconn.MSG_EVENTS]
    ob = hconn.Oblig(c, ['C08'])
    nref = len(ref.msgs)
    reached_end = names and names[-1] == 'disconnected' and not getattr(rec, 'abandoned', False) and ready
    if reached_end and not w.notes.get('faulted') and not getattr(w.fault_hook, 'injected', None):
        if len(msg_idx) < nref:
            c.fail('C08: only %d of %d incoming messages delivered (events %s)' % (len(msg_idx), nref, names))
        for k in range(min(nref, len(msg_idx))):
            ev = evs[msg_idx[k]]
            m = ref.msgs[k]
            if m[0] == 'close':
                # Closing (server first) or Closed (reply to our close), same code/reason
                if ev.name not in ('closing', 'closed'):
                    c.fail('C08: server Close produced a %s event' % ev.name)
                if m[1] is None:
                    if ev.code is not None:
                        c.fail('C08: empty server Close reported with a code')
                else:
                    c.prove(engine.eq_term(ev.code, m[1]), 'C08: %s event carries a different code' % ev.name)
                    ob.prove('C08', eq_items(hconn.text_utf8_items(ev.reason), m[2]), '%s event carries a different reason' % ev.name)
            else:
                hconn.compare_msg(ob, 'C08', ev, m, k)
        if ref.server_close_at is not None:
            cls.add('server-close')
            sc_ev = evs[msg_idx[ref.server_close_at]] if ref.server_close_at < len(msg_idx) else None
            if sc_ev is not None:
                if sc_ev.name == 'closed':
                    cls.add('client-initiated-complete')
                    # Closed, then graceful Disconnected, socket closed, nothing else delivered
                    i = evs.index(sc_ev)
                    rest = [e.name for e in evs[i + 1:]]
                    if rest != ['disconnected']:
                        c.fail('C08: after Closed expected Disconnected only, got %s' % rest)
                    if not evs[-1].graceful:
                        c.fail('C08: Disconnected after a completed closing handshake is not graceful')
                    if not w.socks[0].closed:
                        c.fail('C08: socket not closed after the closing handshake completed')
                else:
                    cls.add('server-initiated')
                    # echo exactly one Close with the same code, after the Closing event
                    li = hconn.event_log_index(w, evs.index(sc_ev))
                    echo = [f for f in frames if f['opcode'] == refmodel.CLOSE]
                    if not echo:
                        c.fail('C08: server Close was never echoed')
                    f = echo[0]
                    if f['log'] < li:
                        c.fail('C08: Close written before the Closing event')
                    m = ref.msgs[ref.server_close_at]
                    app_closed_during = any(x['action'] in ('close', 'close_default', 'close_long') and x['idx'] == evs.index(sc_ev)
                                            for x in app.calls)
                    if not app_closed_during:
                        if m[1] is None:
                            c.prove(eq_items(f['payload'], []), 'C08: empty server Close echoed with a payload')
                        else:
                            if len(f['payload']) < 2:
                                c.fail('C08: Close echo lost the code')
                            c.prove(engine.eq_term(refmodel._u(f['payload'][:2]), m[1]), 'C08: Close echo carries a different code')
                    if not evs[-1].graceful:
                        c.fail('C08: Disconnected after a server-initiated close + EOF is not graceful')
        elif client_close == 'app':
            cls.add('client-close-unanswered')
    return cls


# ---------------------------------------------------------------------------------------------
# C09
# ---------------------------------------------------------------------------------------------

def check_c09(c, w, rec, app, ws, errors, end, P):
    cls = set()
    names = rec.names()
    inj = list(getattr(w.fault_hook, 'injected', None) or [])
    for op, n, kind in inj:
        cls.add('fault:%s:%s' % (op, kind))
    if rec.exc is not None:
        c.fail('C09: exception escaped the event iterator: %r (events %s, faults %s)' % (rec.exc, names, inj),
               sig='C09: exception escaped the event iterator')
    if rec.budget is not None:
        if w.default_script.end == 'silence':
            # a peer that stays silent (no EOF): waiting is the specified behaviour unless a write failed while a closing
            # handshake was under way with close_timeout armed -- then the timeout has to end the iteration
            close_started = any(x['action'] in ('close', 'close_default') for x in app.calls) or 'closing' in names
            if not (inj and close_started and P.get('connect', {}).get('close_timeout')):
                cls.add('idle-on-silent-peer')
                return cls
        c.fail('C09: iterator keeps waiting after the transport failed (%s; events %s; faults %s)' % (rec.budget, names[:10], inj),
               sig='C09: iterator keeps waiting after the transport failed')
    if getattr(rec, 'abandoned', False):
        return cls
    if not rec.stopped or not names or names[-1] not in ('connect_fail', 'disconnected'):
        c.fail('C09: iteration did not end with ConnectFail/Disconnected (events %s, faults %s)' % (names, inj))
    if names[-1] == 'connect_fail' and 'connected' in names:
        c.fail('C09: ConnectFail after Connected')
    if names[-1] == 'disconnected' and 'connected' not in names:
        c.fail('C09: Disconnected without Connected')
    pre_connect_fault = any(op in ('getaddrinfo', 'socket', 'connect') for op, n, k in inj)
    # a failed read / selector wait is the end of the transport: nothing but the terminal event may follow
    for li, e in enumerate(w.log):
        if e[0] == 'fault' and e[1] in ('recv', 'wait'):
            later = [x[2] for x in w.log[li + 1:] if x[0] == 'event']
            if later != ['disconnected'] and later != ['connect_fail']:
                c.fail('C09: transport failure in %s was ignored: events after it are %s' % (e[1], later),
                       sig='C09: transport failure in %s ignored' % e[1])
            break
    # graceful flag: False whenever neither side had started the closing handshake
    frames = wire_frames(c, w, tag='C09')
    client_close = any(f['opcode'] == refmodel.CLOSE for f in frames)
    server_close = any(n in ('closing', 'closed') for n in names)
    app_close = any(x['action'] in ('close', 'close_default') for x in app.calls)
    if names[-1] == 'disconnected':
        ev = rec.events[-1]
        if ev.graceful and not client_close and not server_close and not app_close:
            c.fail('C09: graceful Disconnected although neither side started the closing handshake (events %s, faults %s, end %s)'
                   % (names, inj, end), sig='C09: graceful Disconnected without closing handshake')
        cls.add('graceful' if ev.graceful else 'non-graceful')
    # socket released
    for s in w.socks:
        if s.connected and not s.closed:
            # tolerated only if close() itself was made to fail, or shutdown() raised something that is not a socket error
            # (a socket error from shutdown() - the connection is gone - does not dispense from close())
            if not any(op == 'close' or (op == 'shutdown' and k != 'oserror') for op, n, k in inj):
                c.fail('C09: socket %d left open (events %s, faults %s)' % (s.id, names, inj),
                       sig='C09: socket left open')
    sess = ws.state.session
    if sess is not None and getattr(sess, '_sock', None) is not None:
        c.fail('C09: session still references the socket after the iterator ended')
    # every address tried before giving up
    if names[-1] == 'connect_fail' and not any(op in ('getaddrinfo', 'sendall', 'wrap_socket') for op, n, k in inj):
        tried = len([e for e in w.log if e[0] == 'socket-attempt'])
        if tried != w.n_addrs:
            c.fail('C09: gave up after trying %d of %d resolved addresses' % (tried, w.n_addrs))
        cls.add('all-addresses-refused')
    # application sends report transport trouble only as WebSocketError
    for x in app.calls:
        if x['outcome'] == 'raised' and not isinstance(x['exc'], (errors.WebSocketError,)):
            c.fail('C09: application %s raised %s (not a WebSocketError subclass)' % (x['action'], type(x['exc']).__name__))
    return cls


# ---------------------------------------------------------------------------------------------
# C13
# ---------------------------------------------------------------------------------------------

def check_c13(c, w, rec, app, ws, P):
    cls = set()
    if not getattr(rec, 'abandoned', False):
        return {'_not-abandoned'}
    names = rec.names()
    at = names[-1]
    mech = P.get('abandon_mechanism') or 'break'
    cls.add('abandon@%s' % at)
    cls.add('mech:%s' % mech)
    inj = list(getattr(w.fault_hook, 'injected', None) or [])
    for s in w.socks:
        if s.connected and not s.closed:
            c.fail('C13: socket left open after abandoning the loop at %s by %s (events %s, faults %s)' % (at, mech, names, inj),
                   sig='C13: socket left open after abandoning at %s' % at)
    if mech == 'with-held':
        # the generator is still referenced, so only the socket is required to be released by the with-block exit
        return cls
    if w.notes.get('selector_created', 0) != w.notes.get('selector_closed', 0):
        c.fail('C13: selector not closed after abandoning the loop at %s by %s (created %d, closed %d)'
               % (at, mech, w.notes.get('selector_created', 0), w.notes.get('selector_closed', 0)),
               sig='C13: selector left open after abandoning at %s' % at)
    return cls
