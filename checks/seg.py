"""
C02: the event stream and the bytes written are a function of the concatenated bytes received only.

Metamorphic, inside ONE path: the same symbolic server stream (handshake reply ++ symbolic frame bytes) is
run twice against two fresh WebSocket objects -- once in a single read, once cut at positions chosen by
solver variables -- and every observable of the second run is proved equal to the first.
"""
from .common import *
from .recv import build_stream, build_family


def cut_sizes(c, P, hs_len, total):
    """list of read sizes for run B (None = policy object handles it)"""
    mode = P['mode']
    n = total - hs_len
    if mode == 'frames-allcuts':
        return ('hs-then', 'sym')
    if mode == 'bytewise-frames':
        return ('hs-then', 'bytewise')
    if mode == 'bytewise-all':
        return ('all', 'bytewise')
    if mode == 'hs-joined-bytewise':
        # handshake reply and the first k frame bytes in the same read, rest byte at a time
        k = c.choose(n + 1, 'join') if n > 0 else 0
        return ('sizes', [hs_len + k] + [1] * (n - k))
    if mode == 'one-cut-anywhere':
        lo = max(0, hs_len - P.get('hs_window', 8))
        p = lo + c.choose(total - lo + 1, 'cutp')
        return ('sizes', [p, total - p] if 0 < p < total else [total])
    if mode == 'head-allcuts':
        # every cut set within the first H bytes of the HTTP reply (the first reads deliver 1, 2, ... bytes), rest in one read
        H = P.get('head', 4)
        pts = [i for i in range(1, H + 1) if bool(c.boolean('headcut%d' % i))]
        sizes, prev = [], 0
        for x in pts:
            sizes.append(x - prev)
            prev = x
        return ('sizes', sizes + [total - prev])
    if mode == 'two-cuts':
        # 3-segment lemma: p | d1 | d2  versus  p | d1+d2  is handled by run A using [p, rest]
        lo = max(0, hs_len - P.get('hs_window', 4))
        p = lo + c.choose(total - lo + 1, 'cutp')
        q = p + c.choose(total - p + 1, 'cutq')
        return ('sizes', [x for x in (p, q - p, total - q) if x > 0], [x for x in (p, total - p) if x > 0])
    if mode == 'after-hs':
        return ('sizes', [hs_len, n] if n else [hs_len])
    raise ValueError(mode)


class SizedScript(Script):
    def __init__(self, stream, sizes, end='eof'):
        Script.__init__(self, stream, cuts='one', end=end)
        self.sizes = list(sizes)

    def next_chunk_len(self, maxn):
        avail = min(self.remaining(), maxn)
        if self.sizes:
            return min(self.sizes.pop(0), avail)
        return avail


def one_run(c, P, stream, policy):
    L = lomond()
    w = new_world()
    kind = policy[0]
    src = hconn.server_stream(stream, extra=bytes.fromhex(P.get('extra_headers_hex', '')))
    if kind == 'one':
        w.default_script = Script(src, cuts='one', end='eof')
    elif kind == 'hs-then':
        w.default_script = HsThenCuts(w, src, policy[1], end='eof')
    elif kind == 'all':
        w.default_script = Script(src, cuts=policy[1], end='eof')
    else:
        w.default_script = SizedScript(src, policy[1])
    ws = L.WebSocket('ws://example.com/', compress=bool(P.get('compress')))
    rec = hconn.drive(w, ws, dict(poll=1e9, ping_rate=0, ping_timeout=None, close_timeout=None, auto_pong=True))
    hconn.scribble_receive_buffer(ws)
    return w, rec


def ev_fields(ev):
    """observable fields of an event -> list of (name, value)"""
    out = []
    for k in ('text', 'data', 'code', 'reason', 'error', 'critical', 'graceful', 'protocol', 'extensions',
              'url', 'proxy'):
        if hasattr(ev, k):
            out.append((k, getattr(ev, k)))
    r = getattr(ev, 'response', None)
    if r is not None and not isinstance(r, (str, bytes)):
        out.append(('response.raw', getattr(r, 'raw', None)))
        out.append(('response.status_code', getattr(r, 'status_code', None)))
    return out


def same_value(c, a, b, what):
    import z3
    if isinstance(a, (symdata.SymStr, str)) and isinstance(b, (symdata.SymStr, str)):
        if isinstance(a, str) and isinstance(b, str):
            if a != b:
                c.fail(what)
            return
        c.prove(symdata.eq_items(hconn.text_utf8_items(a), hconn.text_utf8_items(b)), what)
        return
    if isinstance(a, (bytes, bytearray, memoryview, symdata.SymSeq)) and \
            isinstance(b, (bytes, bytearray, memoryview, symdata.SymSeq)):
        c.prove(symdata.eq_items(symdata.items_of(a), symdata.items_of(b)), what)
        return
    if isinstance(a, (SymInt, int)) and isinstance(b, (SymInt, int)) and not isinstance(a, bool) and not isinstance(b, bool):
        c.prove(engine.eq_term(a, b), what)
        return
    if isinstance(a, (set, frozenset, list, tuple)) and isinstance(b, (set, frozenset, list, tuple)):
        if sorted(map(str, a)) != sorted(map(str, b)):
            c.fail(what)
        return
    if type(a) is not type(b) or a != b:
        c.fail(what)


def compare_runs(c, wa, ra, wb, rb):
    na, nb = ra.names(), rb.names()
    if ra.exc is not None or rb.exc is not None:
        if repr(ra.exc) != repr(rb.exc):
            c.fail('C02: an exception escapes the iterator in one segmentation only: %r vs %r' % (ra.exc, rb.exc))
        return
    if ra.budget or rb.budget:
        raise EngineLimit('loop budget in segmentation harness')
    if na != nb:
        c.fail('C02: event sequence depends on segmentation: one read %s vs cut %s' % (na[2:], nb[2:]))
    for i, (ea, eb) in enumerate(zip(ra.events, rb.events)):
        fa, fb = ev_fields(ea), ev_fields(eb)
        for (ka, va), (kb, vb) in zip(fa, fb):
            same_value(c, va, vb, 'C02: %s.%s of event %d depends on segmentation' % (ea.name, ka, i))
    wra = [e[2] for e in wa.log if e[0] == 'write']
    wrb = [e[2] for e in wb.log if e[0] == 'write']
    if len(wra) != len(wrb):
        c.fail('C02: number of writes depends on segmentation: %d vs %d' % (len(wra), len(wrb)))
    for i, (x, y) in enumerate(zip(wra, wrb)):
        c.prove(symdata.eq_items(symdata.items_of(x), symdata.items_of(y)),
                'C02: bytes of write %d depend on segmentation' % i)
    # relative order of writes and events
    oa = [(e[0], e[2] if e[0] == 'event' else None) for e in wa.log if e[0] in ('write', 'event')]
    ob_ = [(e[0], e[2] if e[0] == 'event' else None) for e in wb.log if e[0] in ('write', 'event')]
    if oa != ob_:
        c.fail('C02: interleaving of writes and events depends on segmentation')


def run_seg(c, P):
    if P.get('family'):
        stream, tcls = build_family(c, P)
    else:
        stream = build_stream(c, P)
        tcls = None
    if P.get('big_prefix'):
        # a large binary frame in front (burst right after the handshake)
        n = P['big_prefix']
        stream = ([0x82, 126, n >> 8, n & 255] if n < 65536 else [0x82, 127] + list(n.to_bytes(8, 'big'))) + [0x41] * n + stream
    # run A: reference segmentation
    wa, ra = one_run(c, P, stream, ('one',))
    hs_len = wa.notes.get('hs_len', 0)
    total = hs_len + len(stream)
    pol = cut_sizes(c, P, hs_len, total)
    if P['mode'] == 'two-cuts':
        # lemma form: compare [p,d1,d2] against [p,d1+d2]
        wa, ra = one_run(c, P, stream, ('sizes', pol[2]))
        pol = ('sizes', pol[1])
    wb, rb = one_run(c, P, stream, pol)
    c.notes['scenario'] = {'one-read': ra.names(), 'cut': rb.names()}
    compare_runs(c, wa, ra, wb, rb)
    reads_b = [e[2] for e in wb.log if e[0] == 'recv']
    names = ra.names()
    cls = set(['ev:' + n for n in names[3:-1]]) or {'_idle'}
    if len([r for r in reads_b if r]) > 2:
        cls.add('reads>2')
    if tcls:
        cls.add(tcls)
    return {'cls': sorted(cls), 'sample': {'events': names[3:], 'reads': reads_b[:12]},
            'observe': {'a': names, 'b': rb.names(), 'wire': wire_summary(wb)}}
