"""
C03 (H-buildlen): the frame written for a payload of EVERY length at once.

The caller's payload is a byte string whose LENGTH is a solver variable L (64-bit) and whose content is one abstract
block (symdata.SymLenBytes): len() returns the symbolic L, `data[r::4]` / `.translate(t)` / slice assignment (all that
mask_payload does) are recorded per residue class, bytes()/bytearray()/b''.join keep the block abstract.  The real
send_binary / send_ping / send_pong / close -> WebsocketSession.send -> Frame.to_bytes -> Frame.build -> mask_payload
run on it, and the object handed to sendall is judged:

  * header: FIN/RSV/opcode byte, MASK bit, and the length field encodes exactly L in the SHORTEST of the three forms
    (7-bit iff L < 126, 16-bit iff 126 <= L < 65536, 64-bit iff L >= 65536 with the top bit clear) -- for every L;
  * 4 key bytes, then the payload: explicit prefix bytes (the close code) XOR key, and for each of the 4 residue
    classes of the abstract block: it still holds the caller's bytes of that class, and the translate table(s)
    applied map every byte x to x XOR key[(offset) mod 4] (proved for a symbolic x, all 256 values);
  * control frames: accepted iff the payload fits in 125 bytes, otherwise ValueError and nothing written.

Replay (concrete L): real bytes up to 2^17; above that (Frame.build only) a bytearray subclass whose __len__ reports L
over a short real content -- CPython cannot allocate 2^40 bytes here, and Frame.build consults nothing but len().
"""
import z3
from .common import *
from .build import connected
from symlomond.symdata import SymLenBytes, SymLenByteArray, items_of, lane_apply, mk_bytes
from symlomond.engine import bvv

REAL_MAX = 1 << 17


def _pattern(n):
    return bytes((i * 7 + 3) & 0xFF for i in range(n))


class _LyingByteArray(bytearray):
    """replay only: reports a length the machine cannot allocate"""
    claimed = 0

    def __len__(self):
        return self.claimed


def _mk_payload(c, L, mutable):
    """(object handed to the library, content descriptor)"""
    if c.concrete is None:
        return (SymLenByteArray if mutable else SymLenBytes)(L, 'caller'), None
    if L <= REAL_MAX:
        data = _pattern(L)
        return (bytearray(data) if mutable else data), data
    if not mutable:
        raise EngineLimit('replay of a %d-byte bytes object' % L)
    b = _LyingByteArray(_pattern(64))
    b.claimed = L
    return b, _pattern(64)


def _bv(x, w=64):
    if isinstance(x, int):
        return bvv(x, w)
    return x.at(w)


def judge(c, out, byte0, L, prefix_expected, real, what):
    """out: what was written (SymLenBytes | bytes); L: announced-length requirement; prefix_expected: explicit payload
    bytes before the abstract block (close code); real: replay content of the block"""
    if c.concrete is not None:
        raw = bytes(out)
        pre = list(raw)
    else:
        if not isinstance(out, SymLenBytes):
            c.fail('C03: %s wrote %r' % (what, type(out).__name__))
        pre = list(out.prefix)
    if len(pre) < 2:
        c.fail('C03: %s wrote fewer than 2 bytes' % what)
    b0, b1 = pre[0], pre[1]
    c.prove(_bv(b0, 8) == _bv(byte0, 8), 'C03: %s: first header byte (FIN/RSV/opcode) is wrong' % what)
    c.prove(z3.Extract(7, 7, _bv(b1, 8)) == 1, 'C03: %s: MASK bit not set' % what)
    l7 = z3.ZeroExt(57, z3.Extract(6, 0, _bv(b1, 8)))
    Lp = _bv(L) + len(prefix_expected)           # total payload length
    # which form was used is fixed by the number of explicit bytes before the payload
    npre = len(prefix_expected)
    if c.concrete is not None:
        v7 = raw[1] & 0x7F
        h = 2 if v7 < 126 else 4 if v7 == 126 else 10
    else:
        h = len(pre) - 4 - npre
    if h == 2:
        c.prove(z3.And(l7 == Lp, z3.ULT(Lp, 126)), 'C03: %s: 7-bit length field does not announce the payload length' % what,
                sig='C03: length field wrong or not the shortest form')
    elif h == 4:
        ext = z3.Concat(*[_bv(x, 8) for x in pre[2:4]])
        c.prove(z3.And(l7 == 126, z3.ZeroExt(48, ext) == Lp, z3.UGE(Lp, 126)),
                'C03: %s: 16-bit length form wrong or not the shortest encoding' % what,
                sig='C03: length field wrong or not the shortest form')
    elif h == 10:
        ext = z3.Concat(*[_bv(x, 8) for x in pre[2:10]])
        c.prove(z3.And(l7 == 127, ext == Lp, z3.UGE(Lp, 65536), z3.Extract(63, 63, ext) == 0),
                'C03: %s: 64-bit length form wrong or not the shortest encoding' % what,
                sig='C03: length field wrong or not the shortest form')
    else:
        c.fail('C03: %s: %d bytes before the payload (no RFC 6455 header has that size)' % (what, h + 4))
    key = pre[h:h + 4]
    if len(key) != 4:
        c.fail('C03: %s: no 4-byte masking key' % what)
    pay = pre[h + 4:]
    if c.concrete is not None:
        want = bytes(prefix_expected) + real
        got = bytes(b ^ key[i % 4] for i, b in enumerate(pay))
        if got != want[:len(got)] or (L <= REAL_MAX and len(got) != len(want)):
            c.fail('C03: %s: unmasking the written frame does not give the caller payload' % what,
                   sig='C03: unmasked payload differs')
        return h
    if len(pay) != npre:
        c.fail('C03: %s: %d explicit payload bytes (expected %d)' % (what, len(pay), npre))
    for i, (b, e) in enumerate(zip(pay, prefix_expected)):
        c.prove((_bv(b, 8) ^ _bv(key[i % 4], 8)) == _bv(e, 8), 'C03: %s: explicit payload byte %d does not unmask to the caller value' % (what, i),
                sig='C03: unmasked payload differs')
    if out.src != 'caller':
        c.fail('C03: %s: the payload block is not the caller data' % what)
    c.prove(_bv(out.symlen) == _bv(L), 'C03: %s: payload block length differs from the caller payload length' % what)
    x = c.byte('x')
    for j in range(4):
        src, tables = out.lanes[j]
        if src != j:
            c.fail('C03: %s: payload bytes at offsets = %d mod 4 come from offsets = %d mod 4' % (what, j, src),
                   sig='C03: unmasked payload differs')
        y = lane_apply(out.lanes[j], x)
        c.prove((_bv(y, 8) ^ _bv(key[(npre + j) % 4], 8)) == _bv(x, 8),
                'C03: %s: payload bytes at block offsets = %d mod 4 are not XORed with key byte %d' % (what, j, (npre + j) % 4),
                sig='C03: unmasked payload differs')
    return h


def run_buildlen(c, P):
    via = P['via']
    w = new_world()
    ws, sock = connected(c, w)
    L = c.int('L', 64)
    maxlen = P.get('maxlen', REAL_MAX)
    if c.concrete is None:
        c.assume(z3.ULE(L.e, maxlen))
    cls = via
    if via == 'frame_build':
        from lomond.frame import Frame
        fin = c.int('fin', 1)
        rsv1 = c.int('rsv1', 1)
        opcode = [0, 1, 2, 8, 9, 10][c.choose(6, 'opcode')]
        data, real = _mk_payload(c, L, True)
        try:
            out = Frame.build(opcode, data, fin=fin, rsv1=rsv1)
        except Exception as e:
            c.fail('C03: Frame.build raised %s: %s' % (type(e).__name__, e))
        byte0 = (fin << 7) | (rsv1 << 6) | opcode
        h = judge(c, out, byte0, L, [], real, 'Frame.build')
        cls = 'frame_build:form%d' % h
    elif via == 'send_binary':
        data, real = _mk_payload(c, L, False)
        try:
            ws.send_binary(data)
        except Exception as e:
            c.fail('C03: send_binary raised %s: %s' % (type(e).__name__, e), sig='C03: sendable call rejected')
        out = _one_write(c, w, sock, 'send_binary')
        h = judge(c, out, 0x82, L, [], real, 'send_binary')
        if c.concrete is None and (data.lanes != [(r, ()) for r in range(4)] or data.prefix):
            c.fail('C03: send_binary modified the caller data', sig='C03: caller data modified')
        cls = 'send_binary:form%d' % h
    elif via in ('send_ping', 'send_pong'):
        data, real = _mk_payload(c, L, False)
        fn = ws.send_ping if via == 'send_ping' else ws.send_pong
        fits = L <= 125 if c.concrete is not None else bool(L <= 125)
        try:
            fn(data)
            accepted = True
        except ValueError:
            accepted = False
        except Exception as e:
            c.fail('C03: %s raised %s: %s' % (via, type(e).__name__, e))
        if accepted != fits:
            c.fail('C03: %s of a payload that %s in 125 bytes was %s' % (via, 'fits' if fits else 'does not fit', 'accepted' if accepted else 'rejected'),
                   sig='C03: control payload bound wrong (%s)' % via)
        if accepted:
            out = _one_write(c, w, sock, via)
            judge(c, out, 0x89 if via == 'send_ping' else 0x8A, L, [], real, via)
        elif any(e[0] in ('write', 'write-failed') for e in w.log):
            c.fail('C03: %s was rejected but bytes were written' % via)
        cls = '%s:%s' % (via, 'sent' if accepted else 'rejected')
    elif via == 'close':
        data, real = _mk_payload(c, L, False)
        code = c.int('code', 16)
        fits = L <= 123 if c.concrete is not None else bool(L <= 123)
        try:
            ws.close(code, data)
            accepted = True
        except ValueError:
            accepted = False
        except Exception as e:
            c.fail('C03: close raised %s: %s' % (type(e).__name__, e))
        if accepted != fits:
            c.fail('C03: close() with a reason that %s was %s' % ('fits (<= 123 bytes)' if fits else 'does not fit (> 123 bytes)',
                                                                  'accepted' if accepted else 'rejected'),
                   sig='C03: control payload bound wrong (close)')
        if accepted:
            out = _one_write(c, w, sock, 'close')
            hi = (code >> 8) & 0xFF
            lo = code & 0xFF
            judge(c, out, 0x88, L, [hi, lo], real, 'close')
        else:
            if any(e[0] in ('write', 'write-failed') for e in w.log):
                c.fail('C03: close() was rejected but bytes were written')
            if ws.is_closing:
                c.fail('C03: rejected close() left the WebSocket in the closing state')
        cls = 'close:%s' % ('sent' if accepted else 'rejected')
    else:
        raise ValueError(via)
    return {'cls': cls, 'sample': {'call': cls}, 'observe': {'call': cls}}


def _one_write(c, w, sock, what):
    writes = [e[2] for e in w.log if e[0] == 'write' and e[1] == sock.id]
    if not writes:
        c.fail('C03: %s wrote nothing' % what)
    if len(writes) != 1:
        # one frame handed to the socket in several pieces is still one frame, but pieces of an abstract-length payload cannot be
        # re-assembled by this harness: inconclusive, not a violation (the concrete-length explorations judge the concatenation)
        raise EngineLimit('%s handed its frame to the socket in %d sendall calls: not decidable with an abstract-length payload' % (what, len(writes)))
    return writes[0]
