"""
C01 (length forms beyond N): an inductive step on the frame parser's payload-read state.

Pre-state: the real ClientFrameParser suspended inside the payload of a data frame whose announced length L is a
SYMBOLIC 7/16/63-bit value (every value at once) with k <= 2 payload bytes already gathered; then ONE feed() of a
chunk of symbolic content and solver-chosen size c <= 6.  Obligations: if L - k > c nothing is emitted, the bytes
are appended in order and the parser still owes exactly L - k - c bytes; if L - k <= c the frame is emitted with
payload = gathered ++ first L - k bytes of the chunk, and the surplus bytes start the next frame header.
By induction on the number of chunks (together with the N-bounded sweeps) every length in every form is read
exactly, for every chunking.  Stated assumption: Parser._buffer (a bytearray) has no behaviour that depends on
its absolute size.
"""
import z3
from .common import *
from symlomond.symdata import items_of, eq_items, mk_bytes


def run_frame_step(c, P):
    lomond()
    import lomond.frame_parser as fp
    import lomond.parser as lp
    form = ['7bit', '16bit', '64bit'][c.choose(3, 'form')]
    ops = P.get('opcode_list', [2, 1, 0])
    opcode = ops[c.choose(len(ops), 'opcode')]
    fin = bool(c.boolean('fin'))
    k = c.choose(P.get('k_max', 2) + 1, 'gathered')
    csize = 1 + c.choose(P.get('max_chunk', 6), 'chunk')
    p = fp.ClientFrameParser(parse_headers=False)
    frames = []
    if opcode == 0:
        # a continuation needs an open message: feed a non-final binary frame first
        for f in p.feed(mk_bytes([0x02, 0x01, 0x55])):
            frames.append(f)
        frames = []
    b0 = (0x80 if fin else 0) | opcode
    if form == '7bit':
        L = c.int('L', 7)
        if c.concrete is None:
            c.assume(z3.ULE(L.e, 125))
        hdr = [b0, L]
        Lw = 7
    elif form == '16bit':
        lb = [c.byte('L%d' % i) for i in range(2)]
        hdr = [b0, 126] + lb
        L = refmodel._u(lb)
        Lw = 16
    else:
        lb = [c.byte('L%d' % i) for i in range(8)]
        if c.concrete is None:
            c.assume((lb[0].e & 0x80) == 0)         # < 2^63 (larger is C04's violation)
        hdr = [b0, 127] + lb
        L = refmodel._u(lb)
        Lw = 64
    L = SymInt.lift(L) if not isinstance(L, int) else L
    gathered = [c.byte('g%d' % i) for i in range(k)]
    chunk = [c.byte('x%d' % i) for i in range(csize)]
    is_text = opcode == 1
    if is_text and c.concrete is None:
        for b in gathered + chunk:
            c.assume(z3.ULT(b.e, 0x80))
    if is_text and c.concrete is not None:
        gathered = [b & 0x7F for b in gathered]
        chunk = [b & 0x7F for b in chunk]
    # pre-state: header consumed, k bytes gathered, and the frame is NOT complete yet (L > k)
    if c.concrete is None:
        c.assume(z3.UGT(L.at(64) if isinstance(L, SymInt) else z3.BitVecVal(L, 64), z3.BitVecVal(k, 64)))
    elif not (L > k):
        raise PathAbort('replayed values outside the pre-state')
    pre = list(p.feed(mk_bytes(hdr + gathered)))
    if pre:
        c.fail('C01: frame emitted before its payload arrived (L > %d bytes gathered)' % k)
    aw = p._awaiting
    if not isinstance(aw, lp._ReadBytes):
        c.fail('C01: parser is not waiting for payload bytes after the header')
    c.prove(engine.eq_term(aw.remaining, L - k) if isinstance(L, SymInt) else aw.remaining == L - k,
            'C01: after the header and %d payload bytes the parser does not owe L - %d bytes' % (k, k))
    out = []
    err = None
    try:
        for f in p.feed(mk_bytes(chunk)):
            out.append(f)
    except Exception as e:          # the surplus bytes are parsed as the next header and may violate the protocol
        err = e
    need = L - k                 # bytes still owed before this chunk
    complete = bool(need <= csize)
    if not complete:
        if err is not None:
            c.fail('C01: %s raised while the payload was still incomplete' % type(err).__name__)
        if out:
            c.fail('C01: frame emitted although %s payload bytes are still missing' % 'some')
        aw = p._awaiting
        c.prove(engine.eq_term(aw.remaining, need - csize), 'C01: remaining count after a partial chunk is not L - gathered - chunk')
        c.prove(eq_items(items_of(p._buffer), gathered + chunk), 'C01: partial payload bytes not buffered in order')
        cls = 'partial:%s:%d' % (form, opcode)
    else:
        n = need.concretize() if isinstance(need, SymInt) else need
        surplus = chunk[n:]
        if err is not None and len(surplus) < 2:
            c.fail('C01: %s raised although fewer than 2 surplus bytes followed the frame' % type(err).__name__)
        if len(out) < 1:
            c.fail('C01: complete frame (L = gathered + %d) not emitted' % n)
        f = out[0]
        c.prove(eq_items(items_of(f.payload), gathered + chunk[:n]), 'C01: frame payload is not the first L bytes in order')
        if f.opcode != opcode or bool(f.fin) != fin:
            c.fail('C01: emitted frame has opcode %r fin %r' % (f.opcode, f.fin))
        if len(out) > 1 and len(surplus) < 2:
            c.fail('C01: a second frame emitted from %d surplus byte(s)' % len(surplus))
        # the surplus bytes must be treated as the next header: parser waits for the rest of a 2-byte header
        if len(surplus) < 2:
            aw = p._awaiting
            if not isinstance(aw, lp._ReadBytes):
                c.fail('C01: parser not waiting for a header after the frame')
            if aw.remaining != 2 - len(surplus):
                c.fail('C01: after the frame the parser waits for %r header byte(s), expected %d' % (aw.remaining, 2 - len(surplus)))
        cls = 'complete:%s:%d:surplus%d' % (form, opcode, min(len(surplus), 3))
    return {'cls': cls, 'sample': {'form': form, 'opcode': opcode, 'gathered': k, 'chunk': csize, 'outcome': cls},
            'observe': {'cls': cls, 'nframes': len(out)}}
