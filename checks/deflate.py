"""
C06 (reduced scope): permessage-deflate is used as RFC 7692 section 7 prescribes for the negotiated parameters.

DEFLATE itself is NOT encoded (zlib's C loops; losslessness of zlib is trusted).  In the exploration `zlib` is
an executable abstract streaming codec that makes context synchronisation explicit: a compressed message is
[MAGIC, wbits, gen, seq, len] ++ payload ++ 00 00 ff ff where (gen, seq) identify the compressor object and how
many messages it has seen; an inflater accepts a message iff seq == 0 (needs no history) or it has consumed
exactly the preceding messages of that generation, and iff its window is not smaller than the deflater's.
The reference peer in this file applies RFC 7692 to the NEGOTIATED parameters over the whole message history.
Counterexamples are replayed with the real zlib on both sides.
"""
import z3
from .common import *
from symlomond.symdata import items_of, eq_items, mk_bytes, mk_str, tb
from symlomond.env import ZMAGIC, ZTAIL

SPELLINGS = ['absent', 'plain', 'quoted', 'padded', 'invalid-low', 'invalid-high', 'non-numeric', 'empty']


def wbits_param(c, name, spellings):
    """-> (header fragment items or None, value int/SymInt or None, valid: bool)"""
    sp = spellings[c.choose(len(spellings), 'sp_' + name)]
    key = list(name.encode())
    if sp == 'absent':
        return None, None, True, sp
    if sp in ('plain', 'quoted', 'padded'):
        # one solver variable covers 8..15: "8", "9" (one digit) or "1d" (two digits)
        two = bool(c.boolean('two_' + name))
        d = c.byte('d_' + name)
        if c.concrete is None:
            if two:
                c.assume(z3.And(z3.UGE(d.e, 0x30), z3.ULE(d.e, 0x35)))
            else:
                c.assume(z3.And(z3.UGE(d.e, 0x38), z3.ULE(d.e, 0x39)))
        digits = ([0x31, d] if two else [d])
        val = (SymInt.lift(d) - 0x30) + (10 if two else 0) if not isinstance(d, int) else (d - 0x30) + (10 if two else 0)
        if sp == 'plain':
            frag = key + [0x3D] + digits
        elif sp == 'quoted':
            frag = key + [0x3D, 0x22] + digits + [0x22]
        else:
            frag = [0x20] + key + list(b' = ') + digits + [0x20]
        return frag, val, True, sp
    bad = {'invalid-low': b'7', 'invalid-high': b'16', 'non-numeric': b'x1', 'empty': b''}[sp]
    return key + [0x3D] + list(bad), None, False, sp


class RefPeerDeflater(object):
    """the server's compressor as RFC 7692 prescribes: window = server_max_window_bits, context kept across
    messages unless server_no_context_takeover"""

    def __init__(self, c, wbits, no_takeover):
        self.c = c
        self.wbits = wbits
        self.no_takeover = no_takeover
        self.gen = 200
        self.seq = 0
        self.real = None
        if c.concrete is not None:
            import zlib
            self.real = zlib.compressobj(zlib.Z_DEFAULT_COMPRESSION, zlib.DEFLATED, -max(9, wbits))

    def compress(self, payload):
        if self.c.concrete is not None:
            import zlib
            out = (self.real.compress(bytes(payload)) + self.real.flush(zlib.Z_SYNC_FLUSH))[:-4]
            if self.no_takeover:
                self.real = zlib.compressobj(zlib.Z_DEFAULT_COMPRESSION, zlib.DEFLATED, -max(9, self.wbits))
            return list(out)
        n = len(payload)
        if n >= 2 and symdata._concrete(payload) and len(set(payload)) == 1:
            out = [ZMAGIC, self.wbits, self.gen, self.seq, (n >> 8) | 0x80, n & 255, payload[0]]
        else:
            out = [ZMAGIC, self.wbits, self.gen, self.seq, n >> 8, n & 255] + list(payload)
        self.seq += 1
        if self.no_takeover:
            self.gen += 1
            self.seq = 0
        return out


class RefPeerInflater(object):
    """the server's decompressor: window = client_max_window_bits, reset iff client_no_context_takeover"""

    def __init__(self, c, wbits, no_takeover):
        self.c = c
        self.wbits = wbits
        self.no_takeover = no_takeover
        self.state = None
        self.real = None
        if c.concrete is not None:
            import zlib
            self.real = zlib.decompressobj(-wbits)

    def inflate(self, payload):
        """-> payload items; raises ValueError when a conforming peer cannot inflate"""
        if self.c.concrete is not None:
            import zlib
            # window actually requested from zlib by the client (recorded by the replay shim): real DEFLATE only
            # exceeds the negotiated window once more than 2^bits of history exist, so the API use is checked directly
            from symlomond.env import World
            used = (World.cur.notes.get('zlib_real') or {}).get('compress_wbits') or []
            lim = self.wbits if self.wbits != 8 else 9
            if used and abs(used[-1]) > lim:
                raise ValueError('deflated with a %d-bit window but client_max_window_bits=%d was negotiated' % (abs(used[-1]), self.wbits))
            try:
                out = self.real.decompress(bytes(payload) + b'\x00\x00\xff\xff')
            except zlib.error as e:
                raise ValueError(str(e))
            if self.no_takeover:
                self.real = zlib.decompressobj(-self.wbits)
            return list(out)
        b = payload
        if len(b) == 0:
            # an empty stored block with its tail stripped: inflates to the empty message (no history needed, none added)
            return []
        if len(b) < 6 or not tb(eq_items([b[0]], [ZMAGIC])):
            raise ValueError('not a deflate stream of the abstract codec')
        n = b[4] * 256 + b[5]
        rle = bool(n & 0x8000)
        n &= 0x7FFF
        if len(b) != 6 + (1 if rle else n):
            raise ValueError('compressed payload has a wrong length / tail not stripped')
        wm = b[1]
        lim = self.wbits if self.wbits != 8 else 9
        if bool(SymInt.lift(wm) > lim) if not isinstance(wm, int) else wm > lim:
            raise ValueError('deflated with a %s-bit window but client_max_window_bits=%d was negotiated' % (wm, self.wbits))
        gen = b[2] if isinstance(b[2], int) else b[2].concretize()
        seq = b[3] if isinstance(b[3], int) else b[3].concretize()
        if seq != 0 and self.state != (gen, seq):
            raise ValueError('context out of sync: message needs history (gen %d, seq %d), peer inflater is at %r'
                             % (gen, seq, self.state))
        self.state = (gen, seq + 1)
        if self.no_takeover:
            self.state = None
        return list(b[6:]) * (n if rle else 1)


def data_frame(op, payload, fin=True, rsv1=False):
    n = len(payload)
    b0 = (0x80 if fin else 0) | (0x40 if rsv1 else 0) | op
    if n < 126:
        return [b0, n] + list(payload)
    return [b0, 126, n >> 8, n & 255] + list(payload)


def run_deflate(c, P):
    L = lomond()
    from lomond import errors
    w = new_world()
    spell = P.get('spellings', SPELLINGS)
    offered = P.get('offer', True)
    s_frag, s_val, s_ok, s_sp = wbits_param(c, 'server_max_window_bits', P.get('s_spellings', spell))
    c_frag, c_val, c_ok, c_sp = wbits_param(c, 'client_max_window_bits', P.get('c_spellings', spell))
    if P.get('sym_flags', True):
        s_nt = bool(c.boolean('server_no_context_takeover'))
        c_nt = bool(c.boolean('client_no_context_takeover'))
    else:
        s_nt, c_nt = P.get('flags', (False, False))
    negotiate = bool(c.boolean('negotiate')) if P.get('sym_negotiate', True) else P.get('negotiate', True)
    parts = [list(b'permessage-deflate')]
    for f in (s_frag, c_frag):
        if f is not None:
            parts.append(f)
    if s_nt:
        parts.append(list(b'server_no_context_takeover'))
    if c_nt:
        parts.append(list(b'client_no_context_takeover'))
    ext = []
    if negotiate:
        v = []
        for i, p_ in enumerate(parts):
            if i:
                v += list(b'; ')
            v += p_
        ext = list(b'Sec-WebSocket-Extensions: ') + v + [13, 10]
    valid = s_ok and c_ok
    # concrete values of the negotiated windows (the reference peer needs numbers): case-split
    def conc(v, default):
        if v is None:
            return default
        return v if isinstance(v, int) else v.concretize()
    # ---- history of incoming messages (generated lazily once the windows are known)
    R_ = P.get('incoming', 2)
    plan = []
    for i in range(R_):
        kind = ['c-binary', 'c-text', 'plain-binary', 'c-bad'][c.choose(4 if P.get('bad', True) else 3, 'in_kind')]
        nfrag = 1 + c.choose(P.get('max_frags', 3), 'in_frags')
        ping = bool(c.boolean('in_ping%d' % i)) if nfrag > 1 else False
        plan.append((kind, nfrag, ping))
    sends = P.get('sends', 2)
    # (the peer's own windows only matter in the direction that is exercised)
    sw = conc(s_val, 15) if (valid and negotiate and R_ > 0) else 15
    cw = conc(c_val, 15) if (valid and negotiate and sends > 0) else 15
    deflater = RefPeerDeflater(c, sw, s_nt)
    inflater = RefPeerInflater(c, cw, c_nt)
    expected_in = []
    frames = []
    for i, (kind, nfrag, ping) in enumerate(plan):
        pay = [c.byte('m%d_%d' % (i, j)) for j in range(2)]
        if kind == 'c-text' and c.concrete is None:
            for b in pay:
                c.assume(z3.ULT(b.e, 0x80))
        if kind == 'c-text' and c.concrete is not None:
            pay = [b & 0x7F for b in pay]
            if nfrag > 1 and negotiate and valid:
                # (content of a compressed message does not influence pristine lomond's control flow; in the replay it is chosen
                #  so that the real DEFLATE output is not itself well-formed UTF-8 - aa af 07 00 - as deflate output rarely is)
                pay = [0x7F, 0x7F]
        if c.concrete is not None and kind in ('c-text', 'c-binary') and negotiate and valid and pay != [0x7F, 0x7F] and P.get('history_payloads', True):
            # replay with the REAL zlib: content that pristine lomond's control flow does not depend on is chosen so that real DEFLATE
            # back-references the previous message (a match needs >= 3 equal bytes): a lost inflate context then really fails to inflate
            pay = list(pay) + list(b'-lomond-lomond-lomond')
        op = 1 if kind == 'c-text' else 2
        if kind.startswith('c-') and negotiate and valid:
            body = deflater.compress(pay)
            if kind == 'c-bad':
                # a peer bug: a byte of the deflate stream is damaged in transit
                if c.concrete is None:
                    body = list(body)
                    body[3] = 77            # sequence number nobody is at: cannot be inflated
                else:
                    body = [0xFF, 0xFF, 0xFF] + list(body)
                expected_in.append(('bad', op, pay))
            else:
                expected_in.append(('ok', op, pay))
            rsv1 = True
        else:
            body = pay
            rsv1 = False
            expected_in.append(('ok', 2 if kind != 'c-text' else 1, pay))
            op = 2 if kind != 'c-text' else 1
        # split into nfrag fragments (sizes chosen by solver variables)
        cuts = []
        rest = len(body)
        pos = 0
        pieces = []
        for f in range(nfrag - 1):
            if P.get('cut_options') == 'few':
                opts = sorted(set([0, min(3, rest), rest]))
                k = opts[c.choose(len(opts), 'fragcut')]
            else:
                k = c.choose(rest + 1, 'fragcut')
            pieces.append(body[pos:pos + k])
            pos += k
            rest -= k
        pieces.append(body[pos:])
        for f, piece in enumerate(pieces):
            if f == 1 and ping:
                frames += [0x89, 0x00]
            frames += data_frame(op if f == 0 else 0, piece, fin=(f == len(pieces) - 1), rsv1=(rsv1 and f == 0))
        if expected_in[-1][0] == 'bad':
            break
    w.default_script = Script(hconn.server_stream(frames, extra=bytes(ext) if symdata._concrete(ext) else ext), end='eof')
    ws = L.WebSocket('ws://example.com/', compress=offered)
    sent = []          # (kind, payload items, compress flag)
    nsend = [0]

    def app(idx, ev, ws_, gen):
        if P.get('send_in_ready'):
            if ev.name == 'ready':
                for _ in range(sends):
                    one_send(ws_, 1 + c.choose(5, 'send'))
            return
        if ev.name not in ('ready', 'binary', 'text', 'ping') or nsend[0] >= sends:
            return
        k = c.choose(6, 'send')
        if k == 0:
            return
        one_send(ws_, k)

    def one_send(ws_, k):
        nsend[0] += 1
        i = nsend[0]
        pay = [c.byte('s%d_%d' % (i, j)) for j in range(3)]
        if c.concrete is not None:
            # payload content does not influence lomond's control flow; in the concrete replay it is chosen so that
            # real DEFLATE actually uses its history (back-references need >= 3 matching bytes)
            pay = [0x41, 0x41, 0x41]
        if k == 4:
            pay = [0x41] * 12          # compressible: deflate output shorter than the input
        elif k == 5:
            pay = []                   # empty message
        comp = k != 3
        if k == 1:
            if c.concrete is None:
                for b in pay:
                    c.assume(z3.ULT(b.e, 0x80))
                ws_.send_text(mk_str(pay), compress=comp)
            else:
                pay = [b & 0x7F for b in pay]
                ws_.send_text(bytes(pay).decode('ascii'), compress=comp)
            sent.append((1, pay, comp))
        else:
            ws_.send_binary(mk_bytes(pay), compress=comp)
            sent.append((2, pay, comp))
    rec = hconn.drive(w, ws, dict(poll=1e9, ping_rate=0, ping_timeout=None, close_timeout=None, auto_pong=True), app)
    names = rec.names()
    c.notes['scenario'] = dict(spell=(s_sp, c_sp), nt=(s_nt, c_nt), negotiate=negotiate, plan=plan, events=names,
                               sent=[(a, cflag) for a, _, cflag in sent])
    if rec.exc is not None:
        c.fail('C06: exception escaped the iterator: %r' % (rec.exc,))
    if rec.budget is not None:
        raise EngineLimit('loop budget in deflate harness')
    cls = set(['spell:%s/%s' % (s_sp, c_sp), 'nt:%d%d' % (s_nt, c_nt)])
    # ---- (i) parameter validation
    if negotiate and not valid:
        if 'ready' in names:
            c.fail('C06: invalid window-bits parameter (%s/%s) accepted: Ready' % (s_sp, c_sp))
        if 'rejected' not in names:
            c.fail('C06: invalid window-bits parameter did not produce Rejected: %s' % names)
        cls.add('rejected-params')
        return {'cls': sorted(cls), 'sample': {'ext': 'invalid %s/%s' % (s_sp, c_sp), 'events': names}, 'observe': {'events': names}}
    if 'ready' not in names:
        c.fail('C06: valid extension parameters (%s/%s) not accepted: %s' % (s_sp, c_sp, names))
    rd = rec.events[names.index('ready')]
    active = negotiate
    if active != ('permessage-deflate' in set(rd.extensions)):
        c.fail('C06: Ready.extensions=%r but the reply %s permessage-deflate' % (rd.extensions, 'negotiated' if negotiate else 'did not negotiate'))
    if ws.supports_compression != active and 'disconnected' not in names:
        pass
    # ---- client -> peer: inflate what the client wrote, in wire order
    writes = [e[2] for e in w.log if e[0] == 'write'][1:]
    data_frames = []
    for wr in writes:
        for f in refmodel.decode_client_frames(items_of(wr)):
            if f['opcode'] in (1, 2):
                data_frames.append(f)
            elif f['rsv1']:
                c.fail('C06: RSV1 set on a control frame')
            if f['rsv2'] or f['rsv3']:
                c.fail('C06: RSV2/RSV3 set')
    if len(data_frames) != len(sent):
        c.fail('C06: %d data frames written for %d sends' % (len(data_frames), len(sent)))
    for f, (op, pay, comp) in zip(data_frames, sent):
        if f['opcode'] != op or not f['fin']:
            c.fail('C06: sent message went out with opcode %d fin %s' % (f['opcode'], f['fin']))
        want_rsv1 = active and comp
        if f['rsv1'] and not active:
            c.fail('C06: RSV1 set although permessage-deflate was not negotiated')
        if f['rsv1'] and not comp:
            c.fail('C06: RSV1 set although the application passed compress=False')
        if f['rsv1']:
            cls.add('sent-compressed')
            try:
                got = inflater.inflate(f['payload'])
            except ValueError as e:
                c.fail('C06: an RFC 7692 peer honouring the negotiated parameters cannot inflate a message the client sent: %s' % e,
                       sig='C06: peer cannot inflate client message')
            c.prove(eq_items(got, pay), 'C06: message inflated by the peer differs from what the application sent')
        else:
            if want_rsv1:
                # sending uncompressed although compression was requested is allowed by RFC 7692 (and by the property
                # only forbids the converse); the content must still be right
                cls.add('sent-plain-although-negotiated')
            c.prove(eq_items(f['payload'], pay), 'C06: uncompressed message content differs from what the application sent')
    # ---- peer -> client: delivered content
    evs = [e for e in rec.events if e.name in ('text', 'binary')]
    k = 0
    for tag, op, pay in expected_in:
        if tag == 'bad':
            if 'protocol_error' not in names:
                c.fail('C06: a compressed message that cannot be inflated did not produce a ProtocolError: %s' % names)
            if len(evs) > k:
                c.fail('C06: a compressed message that cannot be inflated was delivered')
            cls.add('bad-stream-rejected')
            break
        if k >= len(evs):
            c.fail('C06: incoming message %d (%s) not delivered: %s' % (k, 'text' if op == 1 else 'binary', names),
                   sig='C06: incoming compressed message not delivered')
        ev = evs[k]
        k += 1
        if ev.name != ('text' if op == 1 else 'binary'):
            c.fail('C06: incoming message delivered as %s' % ev.name)
        got = hconn.text_utf8_items(ev.text) if op == 1 else hconn.data_items(ev.data)
        c.prove(eq_items(got, pay), 'C06: incoming message delivered with wrong content', sig='C06: wrong content delivered')
        cls.add('recv-ok')
    if 'protocol_error' in names and not any(t == 'bad' for t, _, _ in expected_in):
        c.fail('C06: ProtocolError on a conforming compressed stream: %r' % (rec.events[names.index('protocol_error')].error,),
               sig='C06: ProtocolError on a conforming compressed stream')
    return {'cls': sorted(cls), 'sample': {'ext': bytes(x if isinstance(x, int) else 63 for x in ext).decode('latin1'),
                                           'incoming': plan, 'sent': [(a, cf) for a, _, cf in sent], 'events': names},
            'observe': {'events': names, 'nwrites': len(writes)}}


def run_deflate_as(c, P):
    """the same harness serving another property (P['as']): violations are reported under that property's id"""
    from symlomond.engine import Violation
    try:
        return run_deflate(c, P)
    except Violation as v:
        tag = P['as']
        raise Violation(v.what.replace('C06:', tag + ':'), v.model, v.sig.replace('C06:', tag + ':') if v.sig else v.sig)
