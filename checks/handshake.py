"""
C10: Ready is granted only for a correct upgrade reply to a well-formed request.

run_request: os.urandom(16) returns 16 SYMBOLIC bytes (all 2^128 keys); build_request() output is parsed by an
             independent HTTP/1.1 request reader and checked against the RFC 6455 4.1 list; the key header must
             base64-DEcode (reference decoder, arithmetic on the alphabet ranges) to exactly those 16 bytes.
run_reply:   the reply is generated from a structure (status bytes, header list) whose interesting parts are
             symbolic holes; the expected verdict is computed from the structure (ground truth of the
             generator), not from lomond's parser.  sha1 is uninterpreted: D(key) is a fresh 20-byte vector.
"""
import z3
from .common import *
from symlomond.symdata import items_of, eq_items, mk_bytes, tb

URLS = [
    # url, host, port, resource, secure
    ('ws://example.com/', 'example.com', 80, '/', False),
    ('ws://example.com', 'example.com', 80, '/', False),
    ('ws://example.com:8080/chat?x=1', 'example.com', 8080, '/chat?x=1', False),
    ('wss://example.org/a/b?q=1&r=2', 'example.org', 443, '/a/b?q=1&r=2', True),
    ('wss://example.org:444/', 'example.org', 444, '/', True),
    ('ws://10.0.0.1:9/x', '10.0.0.1', 9, '/x', False),
    ('ws://example.com/?only=query', 'example.com', 80, '/?only=query', False),
    ('ws://example.com?token=abc', 'example.com', 80, '/?token=abc', False),
    ('wss://example.com:9443?x=1&y=2', 'example.com', 9443, '/?x=1&y=2', True),
    ('ws://EXAMPLE.com:80/Path/UP?Q=1', 'example.com', 80, '/Path/UP?Q=1', False),
]


def b64_decode_ref(items):
    """reference base64 decoder on (symbolic) items: arithmetic on the alphabet ranges (RFC 4648)"""
    vals = []
    pad = 0
    for x in items:
        if isinstance(x, int) and x == 61:
            pad += 1
            continue
        x = SymInt.lift(x)
        e = x.at(8)
        v = z3.If(z3.And(z3.UGE(e, 65), z3.ULE(e, 90)), e - 65,
                  z3.If(z3.And(z3.UGE(e, 97), z3.ULE(e, 122)), e - 71,
                        z3.If(z3.And(z3.UGE(e, 48), z3.ULE(e, 57)), e + 4,
                              z3.If(e == 43, z3.BitVecVal(62, 8), z3.If(e == 47, z3.BitVecVal(63, 8), z3.BitVecVal(255, 8))))))
        vals.append(v)
    ok = z3.And([v != 255 for v in vals]) if vals else z3.BoolVal(True)
    bits = None
    for v in vals:
        six = z3.Extract(5, 0, v)
        bits = six if bits is None else z3.Concat(bits, six)
    nbytes = (len(vals) * 6) // 8
    out = []
    total = len(vals) * 6
    for i in range(nbytes):
        out.append(SymInt(z3.simplify(z3.Extract(total - 1 - 8 * i, total - 8 - 8 * i, bits)), 8))
    return ok, out


def parse_request(c, items):
    """split a request into (request line items, [(name items, value items)])"""
    lines = []
    cur = []
    i = 0
    n = len(items)
    while i < n:
        if i + 1 < n and tb(eq_items(items[i:i + 2], [13, 10])):
            lines.append(cur)
            cur = []
            i += 2
        else:
            cur.append(items[i])
            i += 1
    if cur:
        c.fail('C10: request does not end with CRLF')
    if len(lines) < 2 or lines[-1] != []:
        c.fail('C10: request not terminated by an empty line')
    headers = []
    for ln in lines[1:-1]:
        if not ln:
            c.fail('C10: empty line inside the request header block')
        k = None
        for j, x in enumerate(ln):
            if tb(eq_items([x], [58])):
                k = j
                break
        if k is None:
            c.fail('C10: request header line without a colon')
        val = ln[k + 1:]
        while val and isinstance(val[0], int) and val[0] in (32, 9):
            val = val[1:]
        headers.append((ln[:k], val))
    return lines[0], headers


def run_request(c, P):
    L = lomond()
    w = new_world()
    url, host, port, resource, secure = URLS[c.choose(len(URLS), 'url')]
    key_raw = [c.byte('k%d' % i) for i in range(16)]
    calls = []

    def ur(n):
        calls.append(n)
        if n == 16 and len(calls) == 1:
            return mk_bytes(key_raw)
        return bytes(n)
    w.urandom = ur
    compress = bool(c.boolean('compress'))
    nproto = c.choose(3, 'nproto')
    protos = [['chat'], ['chat', 'superchat']][nproto - 1] if nproto else None
    ws = L.WebSocket(url, protocols=protos, compress=compress, proxies={})
    custom = bool(c.boolean('custom'))
    if custom:
        ws.add_header(b'X-Token', b'abc def')
        ws.add_header(b'Cookie', b'a=b; c=d')
    req = items_of(ws.build_request())
    if ws.host != host or ws.port != port or ws.resource != resource or ws.is_secure != secure:
        c.fail('C10: URL %s parsed as host=%r port=%r resource=%r secure=%r' % (url, ws.host, ws.port, ws.resource, ws.is_secure))
    line, headers = parse_request(c, req)
    want_line = list(('GET %s HTTP/1.1' % resource).encode())
    c.prove(eq_items(line, want_line), 'C10: request line is not "GET <resource> HTTP/1.1" for %s' % url)
    hmap = {}
    for name, val in headers:
        if not symdata._concrete(name):
            c.fail('C10: symbolic bytes in a header name')
        hmap.setdefault(bytes(name).lower(), []).append(val)

    def one(name):
        v = hmap.get(name)
        if v is None or len(v) != 1:
            c.fail('C10: request has %d %s headers' % (0 if v is None else len(v), name.decode()))
        return v[0]
    c.prove(eq_items(one(b'host'), list(('%s:%d' % (host, port)).encode())), 'C10: Host header is not host:port')
    if bytes(one(b'upgrade')).lower() != b'websocket':
        c.fail('C10: Upgrade header is not websocket')
    if b'upgrade' not in [t.strip().lower() for t in bytes(one(b'connection')).split(b',')]:
        c.fail('C10: Connection header does not contain Upgrade')
    if bytes(one(b'sec-websocket-version')) != b'13':
        c.fail('C10: Sec-WebSocket-Version is not 13')
    key = one(b'sec-websocket-key')
    if len(key) != 24:
        c.fail('C10: Sec-WebSocket-Key has %d characters (expected 24)' % len(key))
    ok, dec = b64_decode_ref(key)
    c.prove(ok, 'C10: Sec-WebSocket-Key contains a character outside the base64 alphabet')
    c.prove(eq_items(dec, key_raw), 'C10: Sec-WebSocket-Key does not decode to the 16 random bytes drawn for this connection')
    if isinstance(key[-1], int) and key[-1] != 61 or isinstance(key[-2], int) and key[-2] != 61:
        c.fail('C10: key of 16 bytes must end with "=="')
    if protos:
        got = [t.strip() for t in bytes(one(b'sec-websocket-protocol')).split(b',')]
        if got != [p.encode() for p in protos]:
            c.fail('C10: offered protocols %r sent as %r' % (protos, got))
    elif b'sec-websocket-protocol' in hmap:
        c.fail('C10: protocol header sent although none offered')
    if compress:
        v = bytes(one(b'sec-websocket-extensions'))
        if b'permessage-deflate' not in v:
            c.fail('C10: compress=True but no permessage-deflate offer')
    elif b'sec-websocket-extensions' in hmap:
        c.fail('C10: extension offered although compress=False')
    if custom:
        if bytes(one(b'x-token')) != b'abc def' or bytes(one(b'cookie')) != b'a=b; c=d':
            c.fail('C10: custom headers not sent verbatim')
    if calls != [16]:
        c.fail('C10: os.urandom called %r for one WebSocket (expected one 16-byte draw)' % (calls,))
    return {'cls': 'req:%s:%s:%s' % (url, compress, nproto),
            'sample': {'url': url, 'request_bytes': len(req)},
            'observe': {'url': url, 'len': len(req)}}


# ---------------------------------------------------------------------------------------------
# replies
# ---------------------------------------------------------------------------------------------

def hole(c, name, n, allowed):
    """n symbolic bytes constrained to a character class ('token' | 'b64' | 'any-nonstructural')"""
    out = []
    for i in range(n):
        b = c.byte('%s%d' % (name, i))
        if c.concrete is None:
            e = b.e
            alnum = z3.Or(z3.And(z3.UGE(e, 65), z3.ULE(e, 90)), z3.And(z3.UGE(e, 97), z3.ULE(e, 122)),
                          z3.And(z3.UGE(e, 48), z3.ULE(e, 57)))
            if allowed == 'token':
                c.assume(z3.Or(alnum, e == 45))
            elif allowed == 'token+':
                # token characters plus the other visible ASCII characters that are not header structure (incl. { } %)
                c.assume(z3.Or(alnum, *[e == ord(ch) for ch in "-{}%!#$&'*+.^_`|~"]))
            elif allowed == 'b64':
                c.assume(z3.Or(alnum, e == 43, e == 47, e == 61))
        out.append(b)
    return out


def case_variant(c, name, text):
    """header name with the case of every letter chosen by one solver bit per name (all upper / all lower / as is)"""
    k = c.choose(3, 'case_' + name)
    if k == 0:
        return list(text)
    if k == 1:
        return list(text.upper())
    return list(text.lower())


TEMPLATES = ['plain', 'reordered', 'accept-first', 'extra-headers', 'nospace', 'padded', 'folded-upgrade',
             'folded-accept', 'dup-upgrade', 'dup-other', 'no-upgrade', 'no-accept', 'tab-sep', 'lf-in-status-text']


def run_reply(c, P):
    L = lomond()
    from lomond import constants
    w = new_world()
    sym_key = P.get('sym_key', False)
    if sym_key:
        kraw = [c.byte('k%d' % i) for i in range(16)]
        w.urandom = lambda n: mk_bytes(kraw) if n == 16 else bytes(n)
    ws = L.WebSocket('ws://example.com/', protocols=['chat'], compress=True)
    # ---- holes
    status = hole(c, 's', 3, 'any') if P.get('sym_status', True) else list(b'101')
    upg = hole(c, 'u', 9, P.get('upgrade_class', 'token'))
    acc = hole(c, 'a', 28, 'b64')
    tname = P.get('templates', TEMPLATES)
    t = tname[c.choose(len(tname), 'tmpl')]
    if P.get('sym_case', True):
        H_UP = case_variant(c, 'upgrade', b'Upgrade')
        H_AC = case_variant(c, 'accept', b'Sec-WebSocket-Accept')
    else:
        H_UP, H_AC = list(b'Upgrade'), list(b'Sec-WebSocket-Accept')
    CRLF = [13, 10]

    def hdr(name, val, sep=b': '):
        return list(name) + list(sep) + list(val) + CRLF
    up_line = hdr(H_UP, upg)
    ac_line = hdr(H_AC, acc)
    other = hdr(b'Connection', b'Upgrade')
    # spellings of the negotiated protocol / extension values (RFC 7230 list syntax: optional whitespace around ',' ';' '=')
    pvals = [v.encode('latin1') for v in P.get('proto_values', ['chat'])]
    evals = [v.encode('latin1') for v in P.get('ext_values', ['permessage-deflate'])]
    pval = pvals[c.choose(len(pvals), 'protoval')] if len(pvals) > 1 else pvals[0]
    evalue = evals[c.choose(len(evals), 'extval')] if len(evals) > 1 else evals[0]
    proto = hdr(b'Sec-WebSocket-Protocol', pval)
    ext = hdr(b'Sec-WebSocket-Extensions', evalue)
    upgrade_present = True
    upgrade_single = True
    accept_present = True
    if t == 'plain':
        body = up_line + other + ac_line + proto + ext
    elif t == 'reordered':
        body = proto + ac_line + ext + other + up_line
    elif t == 'accept-first':
        body = ac_line + up_line + other + proto + ext
    elif t == 'extra-headers':
        body = hdr(b'Server', b'x') + up_line + hdr(b'Date', b'now') + other + ac_line + proto + ext + hdr(b'X-A', b'1')
    elif t == 'nospace':
        body = hdr(H_UP, upg, b':') + other + hdr(H_AC, acc, b':') + proto + ext
    elif t == 'padded':
        body = hdr(H_UP, [32, 32] + upg + [32, 9], b':') + other + hdr(H_AC, [9] + acc + [32, 32], b': ') + proto + ext
    elif t == 'tab-sep':
        body = hdr(H_UP, upg, b':\t') + other + hdr(H_AC, acc, b':\t ') + proto + ext
    elif t == 'folded-upgrade':
        body = list(H_UP) + list(b':') + CRLF + list(b' ') + upg + CRLF + other + ac_line + proto + ext
    elif t == 'folded-accept':
        body = up_line + list(H_AC) + list(b':') + CRLF + list(b'\t ') + acc + CRLF + other + proto + ext
    elif t == 'dup-upgrade':
        body = up_line + other + ac_line + hdr(H_UP, b'websocket') + proto + ext
        upgrade_single = False
    elif t == 'dup-other':
        body = hdr(b'X-Dup', b'a') + up_line + other + hdr(b'X-Dup', b'b') + ac_line + proto + ext
    elif t == 'no-upgrade':
        body = other + ac_line + proto + ext
        upgrade_present = False
    elif t == 'no-accept':
        body = up_line + other + proto + ext
        accept_present = False
    elif t == 'lf-in-status-text':
        body = up_line + other + ac_line + proto + ext
    else:
        raise ValueError(t)
    status_text = b'Switching Protocols' if t != 'lf-in-status-text' else b'Switching  Protocols\t'
    reply = list(b'HTTP/1.1 ') + status + list(b' ') + list(status_text) + CRLF + body + CRLF
    frames = [0x81, 0x01, 0x61]      # a Text frame after the reply: must only be delivered after Ready
    cuts = P.get('cuts', 'one')
    if cuts == 'first-small':
        cuts = [1 + c.choose(6, 'first_read')]
        if c.choose(2, 'second_read'):
            cuts.append(1 + c.choose(3, 'second_read_size'))
    w.default_script = Script(lambda w_, s_: reply + frames, cuts=cuts, end='eof')
    w.max_waits = 4 * (len(reply) + 8)        # byte-at-a-time delivery needs one selector wait per byte
    w.notes['hs_len'] = len(reply)
    rec = hconn.drive(w, ws, dict(poll=1e9, ping_rate=0, ping_timeout=None, close_timeout=None))
    names = rec.names()
    c.notes['scenario'] = dict(template=t, events=names, ext=evalue.decode('latin1'), proto=pval.decode('latin1'))
    if rec.budget is not None:
        raise EngineLimit('wait budget of the harness exhausted: %s' % rec.budget)
    if rec.exc is not None:
        c.fail('C10: exception escaped the iterator: %r' % (rec.exc,))
    # ---- expected verdict from the generator's ground truth
    key = ws.key
    digest = env.sx_sha1(mk_bytes(items_of(key) + list(constants.WS_KEY))).digest()
    want_acc = items_of(env.sx_b64encode(digest))
    st_ok = eq_items(status, list(b'101'))
    up_ok = eq_items(items_of(symdata.SymBytes(upg).lower()) if not symdata._concrete(upg) else list(bytes(upg).lower()),
                     list(b'websocket'))
    ac_ok = eq_items(acc, want_acc)

    def conj(*xs):
        xs = [x for x in xs if x is not True]
        if any(x is False for x in xs):
            return False
        if not xs:
            return True
        return z3.And(xs) if len(xs) > 1 else xs[0]
    expected = conj(st_ok, up_ok, ac_ok)
    if not upgrade_present or not accept_present or not upgrade_single:
        expected = False
    got_ready = 'ready' in names
    # (the content checks come first: the accept comparison below has a known finding on every Ready path, and a
    #  violation ends the path)
    if got_ready:
        ev = rec.events[names.index('ready')]
        if ev.protocol != 'chat':
            c.fail('C10: Ready.protocol = %r (reply said %r)' % (ev.protocol, pval), sig='C10: Ready.protocol wrong')
        if set(ev.extensions) != {'permessage-deflate'}:
            c.fail('C10: Ready.extensions = %r (reply said %r)' % (ev.extensions, evalue), sig='C10: Ready.extensions wrong')
        if not ws.supports_compression:
            c.fail('C10: permessage-deflate negotiated (%r) but compression is not enabled' % (evalue,),
                   sig='C10: negotiated compression not enabled')
        if names.count('text') != 1:
            c.fail('C10: Text frame after a valid reply not delivered exactly once: %s' % names)
    # decide: on this path (got_ready is concrete) the expected verdict must agree for every value
    if got_ready:
        if not upgrade_present or not accept_present or not upgrade_single:
            c.fail('C10: Ready although the reply has %s (template %s)' %
                   ('no Upgrade header' if not upgrade_present else 'no Accept header' if not accept_present else 'two Upgrade headers', t))
        c.prove(st_ok, 'C10: Ready although the status is not 101 (template %s)' % t, sig='C10: Ready with status != 101')
        c.prove(up_ok, 'C10: Ready although the Upgrade value is not websocket (template %s)' % t,
                sig='C10: Ready with Upgrade != websocket')
        lower = lambda it: items_of(symdata.SymBytes(it).lower()) if not symdata._concrete(it) else list(bytes(it).lower())
        c.prove(eq_items(lower(acc), lower(want_acc)),
                'C10: Ready although Sec-WebSocket-Accept differs from the digest of the key (template %s)' % t,
                sig='C10: Ready with a wrong Sec-WebSocket-Accept')
        c.prove(ac_ok, 'C10: Ready although Sec-WebSocket-Accept equals the digest only up to letter case (template %s)' % t,
                sig='C10: Ready with a letter-case variant of the correct Sec-WebSocket-Accept')
    else:
        neg = (not expected) if isinstance(expected, bool) else z3.Not(expected)
        c.prove(neg, 'C10: correct upgrade reply (template %s) not granted Ready: events %s' % (t, names),
                sig='C10: correct reply rejected (template %s)' % t)
    if got_ready:
        cls = 'ready:' + t
    else:
        if 'rejected' not in names and 'protocol_error' not in names:
            c.fail('C10: incorrect reply produced neither Rejected nor ProtocolError: %s' % names)
        for n in ('text', 'binary', 'ping', 'pong', 'closing', 'closed', 'poll'):
            if n in names:
                c.fail('C10: %s event although the upgrade was not accepted' % n)
        if not all(s.closed for s in w.socks if s.connected):
            c.fail('C10: socket not closed after a rejected upgrade')
        cls = 'rejected:' + t
    return {'cls': cls, 'sample': {'template': t, 'events': names},
            'observe': {'events': names, 'closed': [s.closed for s in w.socks]}}


def run_reply_wide(c, P):
    """ONE of the three decisive tokens of an otherwise correct reply (status code, Upgrade value, Sec-WebSocket-Accept value) is a hole
    of symbolic bytes LONGER than the correct token (which one, and how much longer, are solver variables); its bytes take any value
    >= 0x21 - in particular every non-ASCII byte, i.e. UTF-8 encoded Unicode digits, case-folding look-alikes and Unicode white space.
    No such value can be the correct token (it is too long and contains no optional white space), so Ready must never be granted."""
    L = lomond()
    w = new_world()
    ws = L.WebSocket('ws://example.com/', protocols=['chat'])
    which = ['status', 'upgrade', 'accept'][c.choose(3, 'wide')]
    sizes = {'status': [4, 5], 'upgrade': [10, 11], 'accept': [29, 30]}[which]
    n = sizes[c.choose(len(sizes), 'size')]
    h = []
    for i in range(n):
        b = c.byte('w%d' % i)
        if c.concrete is None:
            c.assume(z3.UGE(b.e, 0x21))
        h.append(b)
    where = [b': ', b':', b': \t'][c.choose(3, 'sep')]
    name_variant = c.choose(2, 'name_nbsp') if which == 'accept' else 0

    def stream(w_, sock):
        key = hconn.request_key(w_, sock)
        if key is None:
            raise EngineLimit('server stub: no upgrade request was written before the first read')
        acc = hconn.accept_for(key)
        status = h if which == 'status' else list(b'101')
        upg = h if which == 'upgrade' else list(b'websocket')
        accv = h if which == 'accept' else acc
        rep = (list(b'HTTP/1.1 ') + status + list(b' Switching Protocols\r\n') + list(b'Upgrade') + list(where) + upg + [13, 10]
               + list(b'Connection: Upgrade\r\n') + list(b'Sec-WebSocket-Accept') + list(where) + accv + [13, 10]
               + list(b'Sec-WebSocket-Protocol: chat\r\n') + [13, 10])
        w_.notes['hs_len'] = len(rep)
        return rep + [0x81, 0x01, 0x61]
    w.default_script = Script(stream, cuts='one', end='eof')
    rec = hconn.drive(w, ws, dict(poll=1e9, ping_rate=0, ping_timeout=None, close_timeout=None))
    names = rec.names()
    c.notes['scenario'] = dict(wide=which, size=n, events=names)
    if rec.budget is not None:
        raise EngineLimit('wait budget of the harness exhausted: %s' % rec.budget)
    if rec.exc is not None:
        c.fail('C10: exception escaped the iterator: %r' % (rec.exc,))
    if 'ready' in names:
        c.fail('C10: Ready although the %s token of the reply is %d bytes long and cannot be the correct value (events %s)' % (which, n, names),
               sig='C10: Ready with an over-long %s token' % which)
    if 'rejected' not in names and 'protocol_error' not in names:
        c.fail('C10: incorrect reply produced neither Rejected nor ProtocolError: %s' % names)
    for ev in ('text', 'binary', 'ping', 'pong', 'closing', 'closed', 'poll'):
        if ev in names:
            c.fail('C10: %s event although the upgrade was not accepted' % ev)
    if not all(s_.closed for s_ in w.socks if s_.connected):
        c.fail('C10: socket not closed after a rejected upgrade')
    return {'cls': 'wide-%s-%d' % (which, n), 'sample': {'wide': which, 'events': names},
            'observe': {'events': names, 'closed': [s_.closed for s_ in w.socks]}}


def run_oversize(c, P):
    """header block around the 16 KiB bound, terminated or not, cut at a symbolic position"""
    L = lomond()
    w = new_world()
    ws = L.WebSocket('ws://example.com/')
    delta = c.choose(7, 'delta') - 3          # total header-block length = 16384 + delta
    terminated = bool(c.boolean('terminated'))

    def stream(w_, sock):
        base = hconn.reply_101(w_, sock)            # valid reply, ends with CRLF CRLF
        head, tail = base[:-2], base[-2:]
        fill_overhead = len(b'X-Fill: ') + 2
        total = 16384 + delta
        nfill = total - len(base) - fill_overhead
        block = head + list(b'X-Fill: ') + [0x61] * nfill + [13, 10] + tail
        assert len(block) == total
        if not terminated:
            block = block[:-4] + [0x62] * 4 + [0x63] * 40     # no terminator at all
        w_.notes['hs_len'] = len(block)
        return block + [0x81, 0x01, 0x61]
    mode = c.choose(2, 'cutmode')
    if mode == 0:
        w.default_script = Script(stream, cuts='one', end='eof')
    else:
        k = 16384 - 4 + c.choose(9, 'cutpos')
        w.default_script = Script(stream, cuts=[k], end='eof')
    rec = hconn.drive(w, ws, dict(poll=1e9, ping_rate=0, ping_timeout=None, close_timeout=None))
    names = rec.names()
    c.notes['scenario'] = dict(delta=delta, terminated=terminated, events=names)
    if rec.exc is not None or rec.budget is not None:
        c.fail('C10: iterator failed: %r %r' % (rec.exc, rec.budget))
    total = 16384 + delta
    if terminated and total <= 16384:
        if 'ready' not in names or names.count('text') != 1:
            c.fail('C10: valid reply with a %d byte header block (<= 16 KiB) not accepted: %s' % (total, names))
        cls = 'fits'
    else:
        if 'ready' in names:
            c.fail('C10: Ready although the header block is %d bytes%s' % (total, '' if terminated else ' and unterminated'))
        if 'protocol_error' not in names:
            c.fail('C10: header block of %d bytes (%s) did not produce a ProtocolError: %s'
                   % (total, 'terminated' if terminated else 'unterminated', names))
        if any(n in names for n in ('text', 'poll')):
            c.fail('C10: message/poll events after an oversize header block')
        if not all(s.closed for s in w.socks if s.connected):
            c.fail('C10: socket not closed after an oversize header block')
        cls = 'oversize' if terminated else 'unterminated'
    return {'cls': cls, 'sample': {'header_block': total, 'terminated': terminated, 'events': names},
            'observe': {'events': names}}


def run_fresh_key(c, P):
    """the same WebSocket object connect()ed several times: every upgrade request carries the key drawn
    (os.urandom(16), symbolic) for that very attempt, and Ready is decided against that key"""
    L = lomond()
    from lomond import constants
    w = new_world()
    draws = []

    def ur(n):
        if n == 16:
            d = [c.byte('draw%d_%d' % (len(draws), i)) for i in range(16)]
            draws.append((len(w.log), d))
            return mk_bytes(d)
        return bytes(n)
    w.urandom = ur
    ws = L.WebSocket('ws://example.com/')
    attempts = P.get('attempts', 3)
    stale = P.get('stale_reply', True)
    accepts = []

    def stream(w_, sock):
        key = hconn.request_key(w_, sock)
        acc = hconn.accept_for(key)
        accepts.append(acc)
        use = acc
        if stale and len(accepts) >= 2 and bool(c.boolean('stale%d' % len(accepts))):
            use = accepts[0]            # a reply recorded from the first attempt
            w_.notes['stale_used'] = len(accepts)
        h = (list(b'HTTP/1.1 101 Switching Protocols\r\nUpgrade: websocket\r\nSec-WebSocket-Accept: ') + use +
             list(b'\r\n\r\n'))
        w_.notes['hs_len'] = len(h)
        return h + [0x81, 0x01, 0x61]
    w.default_script = Script(stream, cuts='one', end='eof')
    all_names = []
    for a in range(attempts):
        w.scripts[a] = Script(stream, cuts='one', end='eof')
        rec = hconn.drive(w, ws, dict(poll=1e9, ping_rate=0, ping_timeout=None, close_timeout=None))
        if rec.exc is not None or rec.budget is not None:
            c.fail('C10: iterator failed on attempt %d: %r %r' % (a + 1, rec.exc, rec.budget))
        names = rec.names()
        all_names.append(names)
        # the request of this attempt
        reqs = [(i, e) for i, e in enumerate(w.log) if e[0] == 'write' and e[1] == w.socks[-1].id]
        if not reqs:
            c.fail('C10: attempt %d wrote no request' % (a + 1))
        li, e = reqs[0]
        line, headers = parse_request(c, items_of(e[2]))
        key = [v for n, v in headers if bytes(n).lower() == b'sec-websocket-key']
        if len(key) != 1:
            c.fail('C10: attempt %d has %d key headers' % (a + 1, len(key)))
        mine = [d for pos, d in draws if pos <= li]
        prev_li = -1 if a == 0 else all_req_pos[-1]
        fresh = [d for pos, d in draws if prev_li < pos <= li]
        if a == 0:
            all_req_pos = []
        all_req_pos.append(li)
        if not fresh:
            c.fail('C10: attempt %d drew no new random key (os.urandom(16) not called since the previous request)' % (a + 1),
                   sig='C10: no fresh key drawn for a connection attempt')
        ok, dec = b64_decode_ref(key[0])
        c.prove(ok, 'C10: key of attempt %d is not base64' % (a + 1))
        c.prove(eq_items(dec, fresh[-1]), 'C10: key sent on attempt %d is not the key drawn for this attempt' % (a + 1),
                sig='C10: request does not carry the fresh key of its attempt')
        used_stale = w.notes.get('stale_used') == len(accepts) and len(accepts) >= 2
        if 'ready' in names and used_stale:
            # legitimate only if the stale accept happens to equal the digest of the new key
            # (compared up to letter case here: the case-insensitive comparison is the separate known finding of
            #  reply-status; with an uninterpreted SHA-1 the solver may make two digests case variants of each other)
            lower = lambda it: items_of(symdata.SymBytes(it).lower()) if not symdata._concrete(it) else list(bytes(it).lower())
            c.prove(eq_items(lower(accepts[0]), lower(accepts[-1])),
                    'C10: reply recorded from attempt 1 was granted Ready on attempt %d' % (a + 1),
                    sig='C10: stale reply accepted')
        if 'ready' not in names and not used_stale:
            c.fail('C10: correct reply rejected on attempt %d: %s' % (a + 1, names))
    c.notes['scenario'] = all_names
    return {'cls': 'attempts:%s' % ','.join('R' if 'ready' in n else 'x' for n in all_names),
            'sample': {'events_per_attempt': all_names}, 'observe': {'events': all_names}}
