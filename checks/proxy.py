"""
C19: with a proxy configured nothing reaches the target before the tunnel is up.

The proxy's answer is 'HTTP/1.1 ' + 3 SYMBOLIC status bytes + a tail chosen by solver variables (terminated,
unterminated+EOF, empty, oversized), delivered through recv(1024) with a symbolic segmentation, with a symbolic
fault at every proxy-socket call.  Oracle: an ordered I/O log of the (single) socket.
"""
import z3
from .common import *
from symlomond.symdata import items_of, eq_items, mk_bytes
from symlomond.engine import PathAbort

CONFIGS = [
    # ws url, proxies, expect proxy url or None, proxy host, proxy port, tls to proxy, target host, target port, wss
    ('ws://target.example/chat', {'http': 'http://proxy.local:3128'}, 'http://proxy.local:3128', 'proxy.local', 3128, False, 'target.example', 80, False),
    ('ws://target.example:8080/', {'http': 'http://proxy.local'}, 'http://proxy.local', 'proxy.local', 80, False, 'target.example', 8080, False),
    ('wss://target.example/x', {'https': 'http://proxy.local:3128', 'http': 'http://other:1'}, 'http://proxy.local:3128', 'proxy.local', 3128, False, 'target.example', 443, True),
    ('wss://target.example:444/x', {'https': 'https://secure.proxy'}, 'https://secure.proxy', 'secure.proxy', 443, True, 'target.example', 444, True),
    ('ws://target.example/', {'http': 'http://user:pw@proxy.local:8080'}, 'http://user:pw@proxy.local:8080', 'proxy.local', 8080, False, 'target.example', 80, False),
    ('ws://target.example/', {'http': 'http://user@proxy.local:8080'}, 'http://user@proxy.local:8080', 'proxy.local', 8080, False, 'target.example', 80, False),
    ('ws://target.example/', {'https': 'http://proxy.local:3128'}, None, None, None, False, 'target.example', 80, False),
    ('wss://target.example/', {'http': 'http://proxy.local:3128'}, None, None, None, False, 'target.example', 443, True),
    ('ws://target.example/', {}, None, None, None, False, 'target.example', 80, False),
    # environment proxies: proxies=None means "detect from HTTP_PROXY / HTTPS_PROXY"; an explicit {} disables them
    ('ws://target.example/', 'ENV:{}', None, None, None, False, 'target.example', 80, False),
    ('wss://target.example/', 'ENV:{}', None, None, None, False, 'target.example', 443, True),
    ('ws://target.example/', 'ENV:None', 'http://envproxy.local:3128', 'envproxy.local', 3128, False, 'target.example', 80, False),
    ('wss://target.example/', 'ENV:None', 'http://envsproxy.local:3129', 'envsproxy.local', 3129, False, 'target.example', 443, True),
]
ENVIRON = {'HTTP_PROXY': 'http://envproxy.local:3128', 'HTTPS_PROXY': 'http://envsproxy.local:3129'}


PRELUDES = ['ok', 'partial-error', 'partial-eof', '407']


def _prelude(c, L, url, proxies):
    """an EARLIER connection attempt in the same process (its own WebSocket object and socket): whatever the proxy did
    then must not influence the attempt that is checked"""
    k = PRELUDES[c.choose(len(PRELUDES), 'prelude')]
    w0 = new_world()
    if k == 'ok':
        sc0 = Script(lambda w_, s_: list(b'HTTP/1.1 200 Connection established\r\n\r\n'), end='eof')
        sc0.phases.append(lambda w_, s_: (hconn.reply_101(w_, s_) + [0x81, 0x01, 0x61]) if hconn.request_key(w_, s_) else None)
    elif k == '407':
        sc0 = Script(lambda w_, s_: list(b'HTTP/1.1 407 Proxy Authentication Required\r\n\r\n'), end='eof')
    else:
        sc0 = Script(lambda w_, s_: list(b'HTTP/1.1 200 Connection established\r\n'), end='error' if k == 'partial-error' else 'eof')
    w0.default_script = sc0
    ws0 = L.WebSocket(url, proxies=proxies)
    rec0 = hconn.drive(w0, ws0, dict(poll=1e9, ping_rate=0, ping_timeout=None, close_timeout=None))
    if rec0.budget is not None:
        raise EngineLimit('loop budget in proxy prelude')
    return k, ws0


def run_proxy(c, P):
    L = lomond()
    cfgs = P.get('configs') or list(range(len(CONFIGS)))
    ci = cfgs[c.choose(len(cfgs), 'cfg')]
    url, proxies, purl, phost, pport, ptls, thost, tport, wss = CONFIGS[ci]
    import lomond.websocket as _W
    if isinstance(proxies, str):
        _W.os.environ = dict(ENVIRON)
        proxies = {} if proxies == 'ENV:{}' else None
    else:
        _W.os.environ = {}
    prelude, ws_prev = _prelude(c, L, url, proxies) if P.get('prelude') and purl else (None, None)
    w = new_world()
    status = [c.byte('s%d' % i) for i in range(P.get('status_len', 3))] if P.get('sym_status', True) else list(b'200')
    if P.get('status_len', 3) != 3 and c.concrete is None:
        # an over-long status token without blanks: whatever its bytes (sign, leading zero, digit separator, non-ASCII digits), it is not "200"
        for b in status:
            c.assume(z3.UGE(b.e, 0x21))
    tails = P.get('tails', ['ok', 'ok-headers', 'unterminated-eof', 'empty', 'oversize', 'oversize-terminated', 'garbage'])
    tail = tails[c.choose(len(tails), 'tail')] if purl else 'ok'
    seps = None
    if P.get('sym_seps') and tail == 'ok':
        # the two separators of the status line are symbolic bytes (any value except CR/LF, which would change the line structure)
        seps = [c.byte('sep0'), c.byte('sep1')]
        if c.concrete is None:
            for b in seps:
                c.assume(z3.And(b.e != 13, b.e != 10))
        reply = list(b'HTTP/1.1') + [seps[0]] + status + [seps[1]] + list(b'Connection established\r\n\r\n')
    elif tail == 'ok':
        reply = list(b'HTTP/1.1 ') + status + list(b' Connection established\r\n\r\n')
    elif tail == 'ok-headers':
        reply = list(b'HTTP/1.1 ') + status + list(b' OK\r\nProxy-Agent: x\r\nVia: 1.1 p\r\n\r\n')
    elif tail == 'unterminated-eof':
        reply = list(b'HTTP/1.1 ') + status + list(b' OK\r\nProxy-Agent: x\r\n')
    elif tail == 'empty':
        reply = []
    elif tail == 'oversize':
        reply = list(b'HTTP/1.1 ') + status + list(b' OK\r\nX: ') + [0x61] * 17000
    elif tail == 'oversize-terminated':
        reply = list(b'HTTP/1.1 ') + status + list(b' OK\r\nX: ') + [0x61] * 17000 + list(b'\r\n\r\n')
    else:
        reply = list(b'\x16\x03\x01 not http at all\r\n\r\n')
    complete = tail in ('ok', 'ok-headers')
    cuts = P.get('cuts', 'one')
    if cuts == 'symcut' and reply:
        k = 1 + c.choose(min(len(reply), 40), 'cutp')
        cuts = [k]
    sc = Script(lambda w_, s_: list(reply), cuts=cuts, end='eof')
    # after the tunnel is up the same socket carries the websocket handshake
    sc.phases.append(lambda w_, s_: (hconn.reply_101(w_, s_) + [0x81, 0x01, 0x61]) if hconn.request_key(w_, s_) else None)
    if purl is None:
        def direct(w_, s_):
            if hconn.request_key(w_, s_) is not None:
                return hconn.reply_101(w_, s_) + [0x81, 0x01, 0x61]
            # something other than the upgrade request was written first (e.g. a CONNECT): answer like a proxy would,
            # the oracle below reports it
            return list(b'HTTP/1.1 200 Connection established\r\n\r\n')
        sc = Script(direct, cuts='one', end='eof')
        sc.phases.append(lambda w_, s_: (hconn.reply_101(w_, s_) + [0x81, 0x01, 0x61]) if hconn.request_key(w_, s_) else None)
    w.default_script = sc
    if P.get('fault'):
        F = P['fault']
        w.fault_hook = env.SymFaults(F['ops'], F.get('kinds', ['oserror']), F.get('max', 1), F.get('skip'))
    # (same_object: the checked attempt is a RE-connect of the object the earlier attempt used - C17)
    ws = ws_prev if (P.get('same_object') and ws_prev is not None) else L.WebSocket(url, proxies=proxies)
    rec = hconn.drive(w, ws, dict(poll=1e9, ping_rate=0, ping_timeout=None, close_timeout=None))
    names = rec.names()
    inj = list(getattr(w.fault_hook, 'injected', None) or [])
    c.notes['scenario'] = dict(cfg=ci, tail=tail, events=names, faults=inj, earlier_attempt=prelude)
    if rec.exc is not None:
        c.fail('C19: exception escaped the event iterator: %r' % (rec.exc,))
    if rec.budget is not None:
        raise EngineLimit('loop budget in proxy harness')
    writes = [(i, e) for i, e in enumerate(w.log) if e[0] in ('write', 'write-failed')]
    resolves = [e for e in w.log if e[0] == 'resolve']
    cls = 'cfg%d:%s' % (ci, tail)
    if purl is None:
        # proxy not configured for this scheme: direct connection to the target
        if resolves and (resolves[0][1], resolves[0][2]) != (thost, tport):
            c.fail('C19: no proxy applies to %s but %r:%r was contacted' % (url, resolves[0][1], resolves[0][2]))
        if writes and items_of(writes[0][1][2])[:8] == list(b'CONNECT '):
            c.fail('C19: CONNECT sent although no proxy is configured for this scheme')
        if 'connected' in names:
            ev = rec.events[names.index('connected')]
            if ev.proxy is not None:
                c.fail('C19: Connected.proxy=%r without a proxy' % (ev.proxy,))
        return {'cls': cls + ':direct', 'sample': {'url': url, 'proxies': proxies, 'events': names}, 'observe': {'events': names}}
    if resolves and (resolves[0][1], resolves[0][2]) != (phost, pport):
        c.fail('C19: proxy %s configured but %r:%r was contacted first' % (purl, resolves[0][1], resolves[0][2]))
    if len(resolves) > 1:
        c.fail('C19: a second host was contacted: %r' % (resolves[1:],))
    if writes:
        first = items_of(writes[0][1][2])
        want = list(('CONNECT %s:%d HTTP/1.1\r\n' % (thost, tport)).encode())
        if not symdata._concrete(first) or first[:len(want)] != want:
            c.fail('C19: first bytes written to the proxy are not "CONNECT %s:%d HTTP/1.1": %r'
                   % (thost, tport, bytes(x if isinstance(x, int) else 63 for x in first[:60])))
        if first[-4:] != [13, 10, 13, 10]:
            c.fail('C19: CONNECT request not terminated by an empty line')
    handshake_writes = [(i, e) for i, e in writes[1:]]
    got_upgrade = [i for i, e in writes if _contains(items_of(e[2]), list(b'Upgrade: websocket'))]
    upgrade_failed = any(e[0] == 'write-failed' and _contains(items_of(e[2]), list(b'Upgrade: websocket')) for i, e in writes)
    # position at which the complete proxy answer had been read
    consumed = 0
    answer_read_at = None
    for i, e in enumerate(w.log):
        if e[0] == 'recv':
            consumed += e[2]
            if complete and consumed >= len(reply) and answer_read_at is None:
                answer_read_at = i
    for i, e in handshake_writes:
        if answer_read_at is None or i < answer_read_at:
            c.fail('C19: bytes written to the proxy socket before its answer was complete (tail=%s)' % tail,
                   sig='C19: write before the proxy answered')
    ok200 = eq_items(status, list(b'200'))
    if seps is not None and c.concrete is not None:
        if not (seps[0] == 32 and seps[1] == 32):
            if all(b in (32, 9, 11, 12) for b in seps):
                raise PathAbort('lenient status-line separators: outside the claim')
            ok200 = False
    if seps is not None and c.concrete is None:
        # a status line is "HTTP-version SP status SP reason": with both separators SP the verdict is the status alone; with
        # another ASCII blank (HT VT FF) lenient parsing may go either way (don't care); with anything else - letters,
        # digits, control characters such as 0x1C-0x1F - there is no status field "200" and the tunnel must not be used
        sp = z3.And(seps[0].e == 32, seps[1].e == 32)
        blank = lambda b: z3.Or(b.e == 32, b.e == 9, b.e == 11, b.e == 12)
        if not c.branch(sp):
            if c.branch(z3.And(blank(seps[0]), blank(seps[1]))):
                raise PathAbort('lenient status-line separators: outside the claim')
            ok200 = False
    started = bool(got_upgrade)
    if started:
        if not complete:
            c.fail('C19: websocket handshake written although the proxy answer was %s' % tail)
        c.prove(ok200, 'C19: websocket handshake started although the proxy status is not 200',
                sig='C19: handshake after a non-200 proxy answer')
        if upgrade_failed:
            if names != ['connecting', 'connect_fail']:
                c.fail('C19: upgrade request could not be written but events are %s' % names)
        elif 'connected' not in names:
            c.fail('C19: handshake written but no Connected event')
        else:
            ev = rec.events[names.index('connected')]
            if ev.proxy != purl:
                c.fail('C19: Connected.proxy=%r (configured %r)' % (ev.proxy, purl))
        tls = [e for e in w.log if e[0] == 'tls']
        want_tls = (1 if ptls else 0) + (1 if wss else 0)
        if len(tls) != want_tls and not inj:
            c.fail('C19: %d TLS wraps (expected %d: proxy tls=%s, target wss=%s)' % (len(tls), want_tls, ptls, wss))
        if wss and tls and tls[-1][2] != thost:
            c.fail('C19: TLS to the target negotiated for host %r' % (tls[-1][2],))
        cls += ':tunnel'
    else:
        if complete and not inj:
            neg = (not ok200) if isinstance(ok200, bool) else z3.Not(ok200)
            c.prove(neg, 'C19: proxy answered 200 but the websocket handshake was not started (events %s)' % names)
        if names != ['connecting', 'connect_fail']:
            c.fail('C19: proxy failure must yield exactly Connecting, ConnectFail; got %s' % names)
        if len(writes) > 1:
            c.fail('C19: %d writes although the tunnel was not established' % len(writes))
        cls += ':fail'
    return {'cls': cls, 'sample': {'url': url, 'proxy': purl, 'tail': tail, 'events': names, 'faults': inj},
            'observe': {'events': names, 'nwrites': len(writes)}}


def _contains(items, sub):
    n, m = len(items), len(sub)
    for i in range(n - m + 1):
        if items[i:i + m] == sub:
            return True
    return False


def run_proxy_as(c, P):
    """the same harness serving another property (P['as']): violations are reported under that property's id"""
    from symlomond.engine import Violation
    try:
        return run_proxy(c, P)
    except Violation as v:
        tag = P['as']
        raise Violation(v.what.replace('C19:', tag + ':'), v.model, v.sig.replace('C19:', tag + ':') if v.sig else v.sig)
