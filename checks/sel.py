"""
C18 (H-sel): available data is drained without waiting -- an inductive step on the loop's own decision logic.

The real SelectorBase.wait / PollSelector.wait_readable, the run() loop body and _recv run against an abstract
transport whose state is two SYMBOLIC COUNTERS: k bytes readable in the kernel and q bytes already decrypted
inside the TLS object (q arbitrary, over-approximating real TLS where q <= one record).  pending() returns q;
recv_into(buf, n) serves from q first, otherwise decrypts one record of symbolic size; the readiness wait
returns at once iff k > 0 and otherwise blocks for the whole timeout (clock advances).  WebSocket.feed is
replaced by "consume everything" (justified by C01).  One obligation per loop iteration from an ARBITRARY
pre-state; by induction on iterations any burst is drained in zero virtual time.
"""
import z3
from .common import *
from symlomond.engine import SymInt, bvv
from symlomond import symdata

W = 24          # counter width: bursts up to 16 MiB


class StopScenario(BaseException):
    pass


class AbstractSock(env.FakeSocket):
    """phase 1: ordinary scripted bytes (handshake).  phase 2: counters."""

    def __init__(self, w, tls):
        env.FakeSocket.__init__(self, w)
        self.tls = tls
        self.counters = False
        self.k = None
        self.q = None
        self.iters = []         # per-iteration observations
        self.cur = None

    def __getattribute__(self, name):
        if name == 'pending' and not object.__getattribute__(self, 'tls'):
            raise AttributeError(name)
        return object.__getattribute__(self, name)

    def pending(self):
        if not self.counters:
            return 0
        if self.cur is not None:
            self.cur['pending_calls'] += 1
        return self.q

    def readable(self):
        if not self.counters:
            return env.FakeSocket.readable(self)
        return bool(self.k != 0)

    def recv_into(self, buf, n=0):
        if not self.counters:
            return env.FakeSocket.recv_into(self, buf, n)
        c = Ctx.cur
        cur = self.cur
        blen = len(buf)
        if not n:
            n = blen
        nn = SymInt.lift(n)
        cur['recv_calls'] += 1
        cur['count'] = nn
        if self.tls:
            # _ssl clamps the requested length to the buffer
            ne = z3.If(z3.Or(nn.at(W) == 0, z3.UGT(nn.at(W), bvv(blen, W))), bvv(blen, W), nn.at(W))
        else:
            if bool(nn > blen):
                raise ValueError('buffer too small for requested bytes')
            if bool(nn == 0):
                nn = SymInt.lift(blen)
            ne = nn.at(W)
        q, k = self.q.at(W), self.k.at(W)
        if self.tls:
            have_q = bool(self.q != 0)
            if not have_q:
                if not bool(self.k != 0):
                    raise EngineLimit('blocking recv on an empty transport')
                rec = c.int('rec%d' % len(self.iters), W)
                if c.concrete is None:
                    c.assume(z3.And(z3.UGE(rec.e, 1), z3.ULE(rec.e, k), z3.ULE(rec.e, 16384)))
                re_ = rec.at(W) if isinstance(rec, SymInt) else bvv(rec, W)
                k = k - re_
                q = re_
            ret = z3.If(z3.ULE(ne, q), ne, q)
            q = q - ret
        else:
            if not bool(self.k != 0):
                raise EngineLimit('blocking recv on an empty transport')
            ret = z3.If(z3.ULE(ne, k), ne, k)
            k = k - ret
        self.q, self.k = SymInt(z3.simplify(q), W), SymInt(z3.simplify(k), W)
        r = SymInt(z3.simplify(ret), W)
        cur['returned'] = r
        return r if c.concrete is None else z3.simplify(ret).as_long()


def run_sel(c, P):
    L = lomond()
    from lomond.session import WebsocketSession
    from lomond import selectors as _sel
    w = new_world()
    tls = bool(c.boolean('tls')) if P.get('tls', 'sym') == 'sym' else bool(P['tls'])
    K = P.get('K', 2)
    sock_box = []
    consumed = []
    cls = set(['tls' if tls else 'plain'])
    st = dict(cur=None, done=0, active=False)

    def check_iteration(cur):
        s = sock_box[0]
        got = consumed[cur['nbefore']:]
        k0, q0 = cur['k0'], cur['q0']
        avail = z3.simplify(k0.at(W + 1) + q0.at(W + 1))
        nonempty = avail != 0
        blocked = cur['blocked']
        if blocked:
            c.prove(z3.Not(nonempty), 'C18: the loop blocked in the selector although data was available '
                    '(kernel k>0 or TLS-buffered q>0)', sig='C18: blocking wait with data available')
            cls.add('blocked-when-empty')
            if got:
                c.fail('C18: data consumed in an iteration that blocked on an empty transport')
            return
        cls.add('no-block')
        # not blocked: on this path the transport was non-empty (the stub only unblocks for k>0 / pending)
        if len(got) != 1:
            c.fail('C18: data available but %d chunks were handed to the parser in this loop iteration' % len(got),
                   sig='C18: available data not read in this iteration')
        g = SymInt.lift(got[0])
        c.prove(z3.UGE(g.at(W), bvv(1, W)), 'C18: iteration consumed no byte although data was available')
        c.prove(g.at(W) == cur['returned'].at(W), 'C18: bytes handed to the parser differ from what recv_into returned')
        c.prove(z3.UGE(cur['count'].at(W), bvv(1, W)), 'C18: recv_into called with a count of 0')
        if not tls:
            c.prove(z3.ULE(cur['count'].at(W), bvv(cur['buflen'], W)), 'C18: recv_into count exceeds the receive buffer')
        after = z3.simplify(s.k.at(W + 1) + s.q.at(W + 1) + g.at(W + 1))
        c.prove(after == avail, 'C18: bytes lost or invented between the transport and the parser')
        if w.clock != cur['clock0']:
            c.fail('C18: virtual time advanced in an iteration that had data available')
        cls.add('drained-some')

    class RecSel(_sel.PlatformSelector):
        def wait(self, max_bytes, timeout=0.0):
            if st['active']:
                s = sock_box[0]
                if st['cur'] is not None:
                    check_iteration(st['cur'])
                    st['done'] += 1
                if st['done'] >= K:
                    raise StopScenario()
                st['cur'] = s.cur = dict(pending_calls=0, recv_calls=0, waited=False, blocked=False, count=None,
                                         returned=None, k0=s.k, q0=s.q, clock0=w.clock, nbefore=len(consumed),
                                         buflen=len(ws.state.session._buffer))
            return _sel.PlatformSelector.wait(self, max_bytes, timeout)

    class S(WebsocketSession):
        _selector_cls = RecSel

        def _connect(self):
            s = AbstractSock(w, tls)
            s.connected = True
            s.script = Script(hconn.server_stream([]), end='silence', silent_waits=10 ** 9)
            sock_box.append(s)
            w.log.append(('connect', s.id, None))
            return s, None
    ws = L.WebSocket('wss://example.com/' if tls else 'ws://example.com/')

    def advance(w_, socks, ready, timeout, scale):
        import select as _select
        s = socks[0]
        if not s.counters:
            if ready:
                return [(s.fd, _select.POLLIN)]
            raise EngineLimit('handshake phase ran dry')
        cur = s.cur
        cur['waited'] = True
        if bool(s.k != 0):
            return [(s.fd, _select.POLLIN)]
        cur['blocked'] = True
        w_.clock = w_.clock + timeout / scale
        return []
    w.advance = advance
    w.max_waits = 10 ** 6
    gen = ws.connect(session_class=S, poll=P.get('poll', 1e9), ping_rate=0, ping_timeout=None, close_timeout=None)
    names = []
    for ev in gen:
        names.append(ev.name)
        if ev.name == 'poll':
            break
    if names != ['connecting', 'connected', 'ready', 'poll']:
        raise EngineLimit('handshake phase produced %s' % names)
    s = sock_box[0]

    def feed(data):
        if isinstance(data, symdata.OpaqueView):
            consumed.append(data.symlen)
        else:
            consumed.append(len(data))
        return iter(())
    ws.feed = feed
    symdata.OPAQUE_SLICES[0] = True
    s.counters = True
    k0 = c.int('k0', W)
    q0 = c.int('q0', W) if tls else 0
    s.k = SymInt(SymInt.lift(k0).at(W), W)
    s.q = SymInt(SymInt.lift(q0).at(W), W)
    if c.concrete is None:
        c.assume(z3.And(z3.ULE(s.k.e, 1 << 22), z3.ULE(s.q.e, 1 << 22)))
    st['active'] = True
    try:
        while True:
            ev = next(gen)
            if getattr(ev, 'name', None) != 'poll':       # a Poll after a blocking wait is legitimate housekeeping
                c.fail('C18: unexpected %s event while draining an opaque burst' % getattr(ev, 'name', ev))
    except StopScenario:
        pass
    except StopIteration:
        c.fail('C18: the loop ended while draining')
    finally:
        symdata.OPAQUE_SLICES[0] = False
        st['active'] = False
        try:
            gen.close()
        except BaseException:
            pass
    c.notes['scenario'] = sorted(cls)
    return {'cls': sorted(cls), 'sample': {'transport': 'tls' if tls else 'plain', 'iterations': K, 'classes': sorted(cls)},
            'observe': {'classes': sorted(cls)}}
