"""shared helpers for the check modules"""
import os
import sys

from symlomond import engine, env, hconn, symdata, refmodel, instrument
from symlomond.engine import Ctx, SymInt, SymBool, EngineLimit, PathAbort
from symlomond.env import World, Script

_ready = False


def lomond(fresh=False):
    """import the package under test: instrumented shadow copy (exploration) or pristine (replay).
    fresh=True (exploration only; a replay is a new process anyway): execute the module bodies again, so that module- and
    class-level state of the package cannot leak from one explored path into the next"""
    global _ready
    if not _ready:
        if 'lomond' not in sys.modules:
            env.install()
        _ready = True
    if not getattr(env, 'PRISTINE', False):
        from symlomond import instrument
        if fresh:
            instrument.reload_fresh()
        else:
            instrument.ensure_clean_state()
    import lomond as L
    return L


def new_world():
    w = World()
    World.cur = w
    return w


class HsThenCuts(Script):
    """handshake reply in one read, then the given cut policy for the frame bytes"""

    def __init__(self, w, stream, cuts, end='eof', **k):
        Script.__init__(self, stream, cuts='one', end=end, **k)
        self.w = w
        self.frame_cuts = cuts
        self.sizes = list(cuts) if isinstance(cuts, (list, tuple)) else None

    def next_chunk_len(self, maxn):
        hs = self.w.notes.get('hs_len', 0)
        rem = self.remaining()
        if self.pos < hs:
            return min(hs - self.pos, maxn)
        avail = min(rem, maxn)
        fc = self.frame_cuts
        if fc == 'one':
            return avail
        if fc == 'bytewise':
            return min(1, avail)
        if fc == 'sym':
            if avail <= 1:
                return avail
            return 1 + Ctx.cur.choose(avail, 'cut')
        if self.sizes:
            return min(self.sizes.pop(0), avail)
        return avail


def wire_summary(w, sock_id=0):
    """JSON-able summary of what was written (first byte & length of every write after the request)"""
    out = []
    first = True
    for e in w.log:
        if e[0] in ('write', 'write-failed') and e[1] == sock_id:
            if first:
                first = False
                continue
            it = symdata.items_of(e[2])
            b0 = it[0] if it else None
            b0 = b0 if isinstance(b0, int) else 'sym'
            # the length of a Close frame depends on message text (symbolic values are formatted as
            # placeholders in the exploration), so only its first byte is compared
            # ... and the length of a deflated frame (RSV1) depends on the codec (abstract in the exploration, real zlib in the replay)
            size = 'close' if b0 == 0x88 else ('deflated' if isinstance(b0, int) and b0 & 0x40 else len(it))
            out.append([b0, size])
    return out
