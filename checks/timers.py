"""
C15 (H-timer): keep-alive, timeouts and polling on a virtual clock.

The real run()/_regular/_check_*/_on_ready/_on_pong/WebSocket.close run with time.time() = a symbolic,
non-decreasing REAL; the clock advances only inside the selector wait, by a symbolic 0 <= dt <= poll
(= poll iff nothing arrived).  poll p, ping_timeout t and close_timeout c are symbolic reals; ping_rate r is
taken from a concrete grid (ceil(time/r)*r is non-linear in a symbolic r).  Per loop iteration a solver variable
picks what the server does {nothing, Pong, Text, Close, one event-less byte of an unfinished fragment}; the application may close() at a solver-chosen event.
Floats are idealised as reals; handler time is zero.
"""
import z3
from .common import *
from symlomond.engine import SymReal, _r
from symlomond.symdata import items_of

ACTIONS = ['silent', 'pong', 'text', 'close']
FRAME = {'pong': [0x8A, 0x00], 'text': [0x81, 0x01, 0x61], 'close': [0x88, 0x02, 0x03, 0xE8], 'ping': [0x89, 0x00]}


def R(x):
    if isinstance(x, z3.ExprRef):
        return x
    return _r(x)


def ceil_mult(tau, r):
    """smallest multiple of r that is >= tau (z3 Real); r concrete > 0"""
    q = R(tau) / R(r)
    return z3.ToReal(-z3.ToInt(-q)) * R(r)


def run_timers(c, P):
    L = lomond()
    w = new_world()
    K = P['K']
    r = P['ping_rate']
    # ---- symbolic parameters
    p = c.real('poll')
    if c.concrete is None:
        c.assume(z3.And(p.e > 0, p.e <= 1000))
    tmode = P.get('ping_timeout', 'sym')
    if tmode == 'sym':
        t = c.real('ping_timeout')
        if c.concrete is None:
            c.assume(z3.And(t.e > 0, t.e <= 10000))
    else:
        t = None
    cmode = P.get('close_timeout', 'sym')
    if cmode == 'sym':
        ct = c.real('close_timeout')
        if c.concrete is None:
            c.assume(z3.And(ct.e > 0, ct.e <= 10000))
    elif cmode == 'zero':
        ct = 0
    else:
        ct = None
    actions = P.get('actions', ACTIONS)
    t0 = c.real('t_start')
    if c.concrete is None:
        c.assume(z3.And(t0.e >= 0, t0.e <= 2000000000))
    w.clock = t0
    slots = [0]
    hk = []          # housekeeping instants: (log index, clock) recorded right after every wait / feed event
    chosen = []
    sc = Script(hconn.server_stream([]), cuts='one', end='silence', silent_waits=10 ** 9)
    w.default_script = sc

    hs = {'done': False}
    dripping = [False]

    def advance(w_, socks, ready, timeout, scale):
        import select as _select
        tmo = timeout / scale
        if not hs['done'] and P.get('hs_delay', True):
            # the handshake response arrives a symbolic time after the TCP connect (0 <= d <= poll)
            hs['done'] = True
            d = c.real('hs_delay')
            if c.concrete is None:
                c.assume(z3.And(d.e >= 0, d.e <= R(tmo)))
            w_.clock = w_.clock + d
        if isinstance(tmo, float):
            from fractions import Fraction
            tmo = Fraction(timeout) / Fraction(scale)
        if ready:
            w_.log.append(('wait', 'readable', w_.clock))
            return [(s.fd, _select.POLLIN) for s in ready]
        if slots[0] >= K:
            sc.end = 'eof'              # scenario over: the server drops the connection
            w_.log.append(('wait', 'eof', w_.clock))
            return [(socks[0].fd, _select.POLLIN)]
        slots[0] += 1
        acts = actions if not dripping[0] else [x for x in actions if x in ('silent', 'drip')]
        a = acts[c.choose(len(acts), 'srv')]
        chosen.append(a)
        if a == 'silent':
            w_.clock = w_.clock + tmo
            w_.log.append(('wait', 'timeout', w_.clock))
            return []
        dt = c.real('dt%d' % slots[0])
        if c.concrete is None:
            c.assume(z3.And(dt.e >= 0, dt.e <= R(tmo)))
        w_.clock = w_.clock + dt
        if a == 'drip':
            # event-less bytes: the header of a 256-byte non-final binary fragment, then one payload byte at a time; the socket is
            # readable and the wait does not time out, but no message completes (from then on the server only drips or is silent)
            sc.items.extend([0x61] if dripping[0] else [0x02, 0x7E, 0x01, 0x00, 0x61])
            dripping[0] = True
        else:
            sc.items.extend(FRAME[a])
        w_.log.append(('wait', a, w_.clock))
        return [(socks[0].fd, _select.POLLIN)]
    w.advance = advance
    w.max_waits = K + 12
    ws = L.WebSocket('ws://example.com/')
    close_at = [None]
    app_close = P.get('app_close', True)
    budget = [P.get('app_closes', 1)]     # (a repeated close() must not re-arm the close timeout)

    def app(idx, ev, ws_, gen):
        w.log[-1] = w.log[-1] + (w.clock,)           # stamp the event entry with the virtual time
        if app_close and budget[0] and ev.name in ('ready', 'poll', 'text', 'pong'):
            if c.choose(2, 'appclose'):
                budget[0] -= 1
                close_at[0] = (len(w.log), w.clock)
                w.log.append(('app-close', w.clock))
                ws_.close(1000, b'x')
    rec = hconn.drive(w, ws, dict(poll=p, ping_rate=r, ping_timeout=t, close_timeout=ct, auto_pong=True), app)
    names = rec.names()
    c.notes['scenario'] = dict(server=chosen, events=names, ping_rate=r)
    if rec.exc is not None:
        c.fail('C15: exception escaped the iterator: %r' % (rec.exc,))
    if rec.budget is not None:
        c.fail('C15: loop did not terminate / exceeded the wait budget (%s)' % rec.budget)
    # ---------------- timeline
    log = w.log
    ready_T = None
    for e in log:
        if e[0] == 'event' and e[2] == 'ready':
            ready_T = e[3]
    if ready_T is None:
        raise EngineLimit('no Ready in timer harness')
    S = lambda T: R(T) - R(ready_T)      # session time of an absolute instant
    polls = [e[3] for e in log if e[0] == 'event' and e[2] == 'poll']
    cls = set(['r=%s' % r])
    # (1) first Poll at Ready's timestamp
    if not polls:
        c.fail('C15: no Poll after Ready')
    c.prove(R(polls[0]) == R(ready_T), 'C15: first Poll is not yielded at the time of Ready')
    # (2) cadence
    for a, b in zip(polls, polls[1:]):
        gap = R(b) - R(a)
        c.prove(gap >= R(p), 'C15: two Polls closer together than the poll interval', sig='C15: Polls closer than p')
        c.prove(gap < 2 * R(p), 'C15: two Polls further apart than twice the poll interval', sig='C15: Polls further apart than 2p')
    # walk the log: pings, pongs, timeouts
    last_pong = R(ready_T) - R(ready_T)          # session time 0
    last_ping = None
    sent_close = None                            # session time of the client's Close
    closing = False
    close_done = False
    unresponsive_seen = False
    ended = False
    n_ping = 0
    first_write = True
    for i, e in enumerate(log):
        if e[0] == 'write':
            if first_write:
                first_write = False
                continue
            it = items_of(e[2])
            op = it[0] & 0x0F if isinstance(it[0], int) else None
            if op == 9:
                n_ping += 1
                # time of the write = clock at that moment = time of the enclosing housekeeping instant
                T = _time_at(log, i)
                s = S(T)
                if r == 0:
                    c.fail('C15: automatic Ping written although ping_rate is 0')
                if closing:
                    c.fail('C15: automatic Ping written while closing')
                c.prove(s > 0, 'C15: automatic Ping at or before Ready')
                if last_ping is not None:
                    c.prove(ceil_mult(last_ping, r) < s,
                            'C15: two automatic Pings within one period between consecutive multiples of ping_rate',
                            sig='C15: two Pings in one ping_rate period')
                last_ping = s
            elif op == 8:
                closing = True
        elif e[0] == 'app-close':
            if not closing:
                sent_close = S(e[1])
            closing = True
        elif e[0] == 'event':
            n, T = e[2], e[3]
            if n == 'pong':
                last_pong = S(T)
                cls.add('pong')
            elif n == 'closing':
                closing = True
            elif n == 'closed':
                close_done = True
            elif n == 'unresponsive':
                unresponsive_seen = True
                if t is None:
                    c.fail('C15: Unresponsive although ping_timeout is None')
                c.prove(S(T) - last_pong > R(t), 'C15: Unresponsive although no more than ping_timeout has passed since Ready / the last Pong',
                        sig='C15: Unresponsive too early')
                nxt = [x for x in log[i + 1:] if x[0] == 'event']
                if not nxt or nxt[0][2] != 'disconnected':
                    c.fail('C15: Unresponsive not followed by Disconnected')
                cls.add('unresponsive')
            elif n == 'disconnected':
                ended = True
                ev = rec.events[e[1]]
                forced = sent_close is not None and not close_done and ct is not None and not isinstance(ct, int)
                if unresponsive_seen and ev.graceful:
                    c.fail('C15: graceful Disconnected after Unresponsive')
        # ---- housekeeping instants: after a wait returned, and after every feed event
        is_hk = (e[0] == 'wait' and e[1] != 'eof') or (e[0] == 'event' and e[2] in ('text', 'pong', 'closed', 'closing', 'binary', 'ping'))
        if is_hk and not ended:
            # state after the housekeeping that follows entry i = everything up to the next wait / feed event
            j = i + 1
            seg = []
            while j < len(log) and not (log[j][0] == 'wait' or (log[j][0] == 'event' and log[j][2] in
                                                                   ('text', 'pong', 'closed', 'closing', 'binary', 'ping', 'ready'))):
                seg.append(log[j])
                j += 1
            T = e[2] if e[0] == 'wait' else e[3]
            s = S(T)
            seg_ev = [x[2] for x in seg if x[0] == 'event']
            seg_ping = any(x[0] == 'write' and isinstance(items_of(x[2])[0], int) and items_of(x[2])[0] & 15 == 9 for x in seg)
            terminal = 'disconnected' in seg_ev
            seg_closing = any(x[0] == 'app-close' for x in seg)      # the application closed during this instant's Poll
            # (3) timeliness of automatic pings
            if r and not closing and not seg_closing and not close_done and 'unresponsive' not in seg_ev:
                lp = s if seg_ping else last_ping
                if lp is None:
                    c.prove(z3.Not(s > 0), 'C15: no automatic Ping although a multiple of ping_rate (0) was passed %s'
                            % 'since Ready', sig='C15: automatic Ping missing')
                else:
                    c.prove(ceil_mult(lp, r) >= s, 'C15: a multiple of ping_rate was passed without an automatic Ping by the next housekeeping instant',
                            sig='C15: automatic Ping missing')
            # (4) ping timeout: fires at the first housekeeping instant where it is exceeded
            if t is not None and not unresponsive_seen:
                exceeded = s - last_pong > R(t)
                if 'unresponsive' in seg_ev:
                    pass          # checked at the event
                elif not terminal:
                    c.prove(z3.Not(exceeded), 'C15: more than ping_timeout since Ready / the last Pong but no Unresponsive at this housekeeping instant',
                            sig='C15: Unresponsive missing')
            # (5) close timeout
            if sent_close is not None and not close_done and 'unresponsive' not in seg_ev:
                if ct is None or isinstance(ct, int):
                    if terminal and e[0] == 'wait' and e[1] != 'close' and not rec.events[-1].graceful and False:
                        pass
                else:
                    due = s >= sent_close + R(ct)
                    if terminal:
                        ev = rec.events[-1]
                        if not ev.graceful and e[0] == 'wait' and 'unresponsive' not in seg_ev and not _eof_here(log, i):
                            c.prove(due, 'C15: forced Disconnected earlier than close_timeout after the Close was sent',
                                    sig='C15: close timeout fired early')
                            c.prove(s <= sent_close + R(ct) + R(p), 'C15: forced Disconnected later than close_timeout + poll',
                                    sig='C15: close timeout fired late')
                            cls.add('close-timeout')
                    else:
                        c.prove(z3.Not(due), 'C15: close_timeout elapsed since the Close was sent but the connection was not forced down',
                                sig='C15: close timeout missing')
    if sent_close is not None and (ct is None or isinstance(ct, int)):
        # never forced when close_timeout is None or 0: the connection must last until the scenario ends it
        if names[-1] == 'disconnected' and not close_done and not unresponsive_seen:
            if slots[0] < K and not any(a == 'close' for a in chosen):
                c.fail('C15: connection forced down although close_timeout is %r' % (ct,))
    if r == 0 and n_ping:
        c.fail('C15: %d automatic Pings with ping_rate 0' % n_ping)
    if n_ping:
        cls.add('pings')
    if sent_close is not None:
        cls.add('app-close')
    return {'cls': sorted(cls), 'sample': {'server': chosen, 'events': names, 'pings': n_ping},
            'observe': {'server': chosen, 'events': names, 'pings': n_ping}}


def _time_at(log, i):
    """virtual time at log index i = time of the latest stamped entry before it"""
    for j in range(i, -1, -1):
        e = log[j]
        if e[0] == 'wait':
            return e[2]
        if e[0] == 'event' and len(e) > 3:
            return e[3]
        if e[0] == 'app-close':
            return e[1]
    raise EngineLimit('no timestamp before log entry')


def _eof_here(log, i):
    return log[i][0] == 'wait' and log[i][1] == 'eof'
