import os
import sys


def main(argv):
    if not argv:
        print('usage: vcheck <property> [--tier quick|thorough] [--replay file]')
        return 3
    if argv[0] == '--selftest':
        from symlomond import selftest
        sys.argv = ['selftest'] + argv[1:]
        return selftest.main()
    prop = argv[0]
    tier = os.environ.get('VERIF_TIER') or 'quick'
    replay = None
    i = 1
    while i < len(argv):
        if argv[i] == '--tier':
            tier = argv[i + 1]
            i += 2
        elif argv[i] == '--replay':
            replay = argv[i + 1]
            i += 2
        else:
            i += 1
    if replay:
        from symlomond import runner
        ok, out = runner.run_replay(replay)
        print(out)
        if ok is True:
            print('VIOLATION property=%s replay=%s' % (prop, replay))
            return 1
        return 0 if ok is False else 3
    from checks import props
    fn = props.PROPS.get(prop)
    if fn is None:
        print('no check registered for %s' % prop)
        return 3
    if tier == 'thorough':
        rc = selftest_once()
        if rc:
            print('translator / model self-test failed: no verdict (exit 3)')
            return 3
    return fn(tier)


def selftest_once():
    """translator + model validation, once per source digest (thorough tier)"""
    import subprocess
    from symlomond import instrument
    verif = os.path.dirname(os.path.dirname(os.path.abspath(__file__)))
    stamp = os.path.join(verif, '.work', 'selftest-%s.ok' % instrument.source_digest())
    if os.path.exists(stamp):
        return 0
    p = subprocess.run([sys.executable, '-m', 'symlomond.selftest'], cwd=verif, env=dict(os.environ, PYTHONPATH=verif))
    if p.returncode == 0:
        os.makedirs(os.path.dirname(stamp), exist_ok=True)
        open(stamp, 'w').write('ok')
    return p.returncode


if __name__ == '__main__':
    try:
        rc = main(sys.argv[1:])
    except SystemExit:
        raise
    except BaseException:
        import traceback
        traceback.print_exc()
        print('HARNESS ERROR (exit 3)')
        rc = 3
    sys.stdout.flush()
    os._exit(rc)
