"""
C05 layer 1: the real Utf8Validator (table-driven DFA) is bisimilar to the RFC 3629 section 4 grammar.

Product construction: starting from (ACCEPT, boundary) the set of reachable pairs
(implementation state, reference state) is closed under "one more byte"; every step runs the real
Utf8Validator.validate on ONE SYMBOLIC BYTE from a concrete state (table read through the ITE encoding
of the real UTF8VALIDATOR_DFA_S), the reference automaton is derived from the ABNF.  Each explored path
is a set of bytes; per path the obligations tie the two verdicts together.  Closure => verdicts agree
for byte strings of every length.
"""
from .common import *

# reference automaton from RFC 3629 section 4:
#   UTF8-1 = %x00-7F ; UTF8-2 = %xC2-DF UTF8-tail
#   UTF8-3 = %xE0 %xA0-BF tail / %xE1-EC 2(tail) / %xED %x80-9F tail / %xEE-EF 2(tail)
#   UTF8-4 = %xF0 %x90-BF 2(tail) / %xF1-F3 3(tail) / %xF4 %x80-8F 2(tail) ; tail = %x80-BF
# state = tuple of (lo, hi) ranges still owed; () = code point boundary; None = dead
LEADS = [
    ((0x00, 0x7F), ()),
    ((0xC2, 0xDF), ((0x80, 0xBF),)),
    ((0xE0, 0xE0), ((0xA0, 0xBF), (0x80, 0xBF))),
    ((0xE1, 0xEC), ((0x80, 0xBF), (0x80, 0xBF))),
    ((0xED, 0xED), ((0x80, 0x9F), (0x80, 0xBF))),
    ((0xEE, 0xEF), ((0x80, 0xBF), (0x80, 0xBF))),
    ((0xF0, 0xF0), ((0x90, 0xBF), (0x80, 0xBF), (0x80, 0xBF))),
    ((0xF1, 0xF3), ((0x80, 0xBF), (0x80, 0xBF), (0x80, 0xBF))),
    ((0xF4, 0xF4), ((0x80, 0x8F), (0x80, 0xBF), (0x80, 0xBF))),
]


def ref_step(R, b):
    """reference transition on (symbolic) byte b; forks"""
    if R is None:
        return None
    if R == ():
        for (lo, hi), owed in LEADS:
            if bool(b >= lo) and bool(b <= hi):
                return owed
        return None
    lo, hi = R[0]
    if bool(b >= lo) and bool(b <= hi):
        return R[1:]
    return None


def enc(R):
    return 'dead' if R is None else ('-'.join('%02x%02x' % r for r in R) or 'boundary')


def dec(s):
    if s == 'dead':
        return None
    if s == 'boundary':
        return ()
    return tuple((int(p[:2], 16), int(p[2:], 16)) for p in s.split('-'))


def run_step(c, P):
    """one symbolic byte from the pair (P['s'], P['R'])"""
    L = lomond()
    import lomond.utf8validator as U
    s = P['s']
    R = dec(P['R'])
    v = U.Utf8Validator()
    v._state = s
    v._index = 0
    b = c.byte('b')
    data = symdata.mk_bytes([b])
    valid, ends, cur, tot = v.validate(data)
    valid = bool(valid)
    s2 = v._state
    if isinstance(s2, SymInt):
        s2 = s2.concretize()
    R2 = ref_step(R, SymInt.lift(b) if isinstance(b, int) else b)
    # ---- obligations on this set of bytes
    if (not valid) != (R2 is None):
        c.fail('C05: validator says valid=%s but RFC 3629 grammar says %s (state %d/%s)'
               % (valid, 'dead' if R2 is None else 'alive', s, P['R']))
    if valid:
        if bool(ends) != (R2 == ()):
            c.fail('C05: endsOnCodePoint=%s but grammar boundary=%s (state %d/%s)' % (bool(ends), R2 == (), s, P['R']))
        if s2 == U.UTF8_REJECT:
            c.fail('C05: valid=True but state is REJECT')
        if (s2 == U.UTF8_ACCEPT) != (R2 == ()):
            c.fail('C05: ACCEPT state does not coincide with a code point boundary')
        c.prove(engine.eq_term(cur, 1), 'C05: currentIndex after a valid byte is not 1')
    else:
        if s2 != U.UTF8_REJECT:
            c.fail('C05: valid=False but validator state %d is not REJECT (reject must be absorbing)' % s2)
        c.prove(engine.eq_term(cur, 0), 'C05: currentIndex of the offending byte is not 0')
    return {'cls': 'succ:%d:%s' % (s2, enc(R2))}


def run_chunk(c, P):
    """validate(c1); validate(c2) == validate(c1 + c2) from state s: only the state is carried"""
    L = lomond()
    import lomond.utf8validator as U
    s = P['s']
    b1, b2 = c.byte('b1'), c.byte('b2')
    v1 = U.Utf8Validator()
    v1._state = s
    r1a = v1.validate(symdata.mk_bytes([b1]))
    ok_a = bool(r1a[0])
    if ok_a:
        r1b = v1.validate(symdata.mk_bytes([b2]))
        ok_ab = bool(r1b[0])
        ends_ab = bool(r1b[1]) if ok_ab else None
    else:
        ok_ab = False
        ends_ab = None
    v2 = U.Utf8Validator()
    v2._state = s
    r2 = v2.validate(symdata.mk_bytes([b1, b2]))
    ok2 = bool(r2[0])
    if ok2 != ok_ab:
        c.fail('C05: verdict depends on chunking (state %d): split=%s joined=%s' % (s, ok_ab, ok2))
    if ok2:
        if bool(r2[1]) != ends_ab:
            c.fail('C05: endsOnCodePoint depends on chunking (state %d)' % s)
        c.prove(engine.eq_term(v1._state, v2._state), 'C05: carried state depends on chunking (state %d)' % s)
    else:
        # fail-fast index: the joined call must stop at the first offending byte
        want = 0 if not ok_a else 1
        c.prove(engine.eq_term(r2[2], want), 'C05: joined call reports the wrong offending index (state %d)' % s)
    return {'cls': 'chunk:%d:%s' % (s, ok2)}


def closure():
    """closed obligations for the proof-level part; returns the pre_info dict for the runner"""
    import time
    from symlomond import engine as E
    lomond()
    import lomond.utf8validator as U
    E.LOGIC = 'QF_BV'
    t0 = time.time()
    start = (U.UTF8_ACCEPT, 'boundary')
    seen = {start}
    work = [start]
    failed = []
    limits = []
    obligations = 0
    paths = 0
    samples = []
    reach_reject = False
    while work:
        s, R = work.pop()
        P = dict(s=s, R=R)
        r = E.explore(lambda c: run_step(c, P), stop_on_violation=False)
        paths += r.paths
        obligations += r.prove_queries + r.queries
        for what, model, scen, sig in r.violations:
            failed.append(dict(what=what + ' on byte 0x%02x' % model.get('b', 0), sig=sig, model=model,
                               spec=SPEC_STEP(P)))
        limits.extend(r.limits)
        for k in r.classes:
            _, s2, R2 = k.split(':')
            pair = (int(s2), R2)
            if len(samples) < 6:
                samples.append('(%d,%s) --%d byte class(es)--> (%s,%s)' % (s, R, r.classes[k], s2, R2))
            if pair not in seen:
                seen.add(pair)
                work.append(pair)
    # every reachable implementation state: chunk independence + reset
    states = sorted(set(s for s, _ in seen))
    for s in states:
        P = dict(s=s)
        r = E.explore(lambda c: run_chunk(c, P), stop_on_violation=False)
        paths += r.paths
        obligations += r.prove_queries + r.queries
        for what, model, scen, sig in r.violations:
            failed.append(dict(what=what, sig=sig, model=model, spec=SPEC_CHUNK(P)))
        limits.extend(r.limits)
    v = U.Utf8Validator()
    v._state = 5
    v.reset()
    obligations += 1
    if v._state != U.UTF8_ACCEPT:
        failed.append(dict(what='C05: reset() does not return to ACCEPT', sig='C05: reset', model={}, spec=None))
    return dict(obligations=obligations, discharged=obligations - len(failed), failed=failed, limits=limits,
                reachable_pairs=sorted('%d/%s' % p for p in seen), impl_states=states, paths=paths,
                samples=samples, wall_s=round(time.time() - t0, 2),
                what='product closure of real Utf8Validator.validate (one symbolic byte per step) with the '
                     'RFC 3629 ABNF automaton; chunk-independence on two symbolic bytes from every reachable state')


def SPEC_STEP(P):
    from symlomond.runner import Spec
    return Spec('utf8-step', 'checks.utf8', 'run_step', P, 'one symbolic byte from a product state')


def SPEC_CHUNK(P):
    from symlomond.runner import Spec
    return Spec('utf8-chunk', 'checks.utf8', 'run_chunk', P, 'two symbolic bytes, split vs joined')
