#!/bin/sh
# run every quick check on the unchanged tree, rewriting evidence/*.json; prints one line per property
cd /verif
git -C /repo status --short | grep -q . && { echo "/repo has uncommitted changes"; exit 2; }
bad=0
for p in C01 C02 C03 C04 C05 C06 C07 C08 C09 C10 C11 C12 C13 C14 C15 C16 C17 C18 C19; do
  out=$(./vcheck $p --tier quick 2>&1); rc=$?
  echo "$out" | grep -E "^(C[0-9]+ |VIOLATION|INCONCLUSIVE)" | tail -2 | cut -c1-220
  [ $rc = 0 ] || { bad=1; echo "  ^^ rc=$rc"; }
done
exit $bad
