"""
symlomond.selftest -- validation of the symbolic front end itself (not a property check).

 1. translator validation: the repository's pinned suite is run against the INSTRUMENTED package with all
    shims in pass-through mode; the set of passing tests must contain BASELINE.json's stable_pass set.
 2. model validation: every pure-Python model of a C-level operation (bytes/str methods, struct, base64,
    int(), UTF-8 acceptor, table look-up) is compared with CPython on concrete data (boundary vectors +
    pseudo-random vectors seeded by VERIF_SEED).
exit 0 = ok, 3 = mismatch (harness error).
"""
import json
import os
import random
import subprocess
import sys
import tempfile
import xml.etree.ElementTree as ET

VERIF = os.path.dirname(os.path.dirname(os.path.abspath(__file__)))


def suite_on_instrumented():
    base = json.load(open('/root/.vp/BASELINE.json')) if os.path.exists('/root/.vp/BASELINE.json') else None
    fd, xml = tempfile.mkstemp(suffix='.xml')
    os.close(fd)
    env = dict(os.environ, PYTHONPATH=VERIF, SX_PASSTHROUGH='1')
    p = subprocess.run([sys.executable, '-m', 'pytest', '-q', '-p', 'symlomond.pytest_sx', '-p', 'no:cacheprovider',
                        '--timeout=900', '--junitxml=' + xml], cwd='/repo', env=env,
                       stdout=subprocess.PIPE, stderr=subprocess.STDOUT)
    out = p.stdout.decode('utf-8', 'replace')
    passed = set()
    try:
        for tc in ET.parse(xml).getroot().iter('testcase'):
            if not any(ch.tag in ('failure', 'error', 'skipped') for ch in tc):
                passed.add('%s::%s' % (tc.get('classname'), tc.get('name')))
    finally:
        os.unlink(xml)
    dispatched = [l for l in out.splitlines() if l.startswith('[sx]')]
    if base is None:
        return len(passed), [], dispatched
    want = set(base['stable_pass'])

    def norm(s):
        return s.replace('.TestIntegration', '.TestIntegration')
    missing = sorted(t for t in want if t not in passed and norm(t) not in passed)
    return len(passed), missing, dispatched


def models():
    sys.path.insert(0, VERIF)
    import z3
    from symlomond import engine, symdata, instrument, env
    from symlomond.symdata import SymBytes, SymByteArray, SymStr
    rnd = random.Random(int(os.environ.get('VERIF_SEED', '0') or 0))
    c = engine.Ctx(concrete={})
    engine.Ctx.cur = c
    bad = []
    n = 0

    def same(name, got, want):
        nonlocal n
        n += 1
        g = got
        if isinstance(g, (symdata.SymSeq,)):
            g = bytes(g.concretize())
        if isinstance(g, (list, tuple)):
            g = type(want)(bytes(x.concretize()) if isinstance(x, symdata.SymSeq) else x for x in g)
        if isinstance(g, bytearray):
            g = bytes(g)
        w_ = bytes(want) if isinstance(want, bytearray) else want
        if isinstance(w_, (list, tuple)):
            w_ = type(w_)(bytes(x) if isinstance(x, bytearray) else x for x in w_)
        if g != w_:
            bad.append('%s: model %r != CPython %r' % (name, g, w_))
    alphabet = [b'\r', b'\n', b' ', b'\t', b':', b',', b'a', b'Z', b'=', b'"', b'\x00', b'\xff', b'1', b';']

    def rb(k):
        return b''.join(rnd.choice(alphabet) for _ in range(k))
    vectors = [b'', b' ', b'\r\n', b'\r\n\r\n', b'a: b\r\nc:d\r\n\r\n', b'  x  ', b'HTTP/1.1 101 X', b'a,b,,c', b'k=v; k2="v2"']
    vectors += [rb(rnd.randrange(0, 14)) for _ in range(600)]
    for v in vectors:
        s = SymBytes(list(v))
        a = SymByteArray(list(v))
        for sep in (b'\r\n', b'\r\n\r\n', b':', b',', b' '):
            same('find', s.find(sep), v.find(sep))
            for st, en in ((-3, None), (-1, None), (2, -1), (-20, 5), (1, None)):
                same('find-range', s.find(sep, st, en), v.find(sep, st, en))
                # the symbolic search loop itself (fast path for concrete data switched off)
                _c = symdata._concrete
                symdata._concrete = lambda *_a: False
                try:
                    same('find-range-loop', s.find(sep, st, en), v.find(sep, st, en))
                finally:
                    symdata._concrete = _c
            same('split', s.split(sep), v.split(sep))
            same('partition', s.partition(sep), v.partition(sep))
            same('startswith', s.startswith(sep), v.startswith(sep))
            same('endswith', s.endswith(sep), v.endswith(sep))
        same('split-none', s.split(), v.split())
        same('split-none-2', s.split(None, 2), v.split(None, 2))
        same('strip', s.strip(), v.strip())
        same('lstrip', s.lstrip(), v.lstrip())
        same('strip-q', s.strip(b'"'), v.strip(b'"'))
        same('lower', s.lower(), v.lower())
        same('upper', s.upper(), v.upper())
        same('slice', a[1:4], bytearray(v)[1:4])
        same('join', SymBytes(list(b', ')).join([s, s]), b', '.join([v, v]))
        same('decode-ascii-replace', _str_of(s.decode('ascii', 'replace')), v.decode('ascii', 'replace'))
        b2 = SymByteArray(list(v))
        r2 = bytearray(v)
        b2[::4] = b2[::4].translate(bytes(range(255, -1, -1)))
        r2[::4] = r2[::4].translate(bytes(range(255, -1, -1)))
        same('translate-slices', b2, r2)
    # str models
    svecs = ['', ' a ', 'Upgrade', 'permessage-deflate; a=1; b="2"', 'x\t', '\x1f y', 'A,b , C'] + \
            [rb(rnd.randrange(0, 12)).decode('latin1') for _ in range(300)]
    for v in svecs:
        s = SymStr(cps=[ord(ch) for ch in v])
        same('str.strip', _str_of(s.strip()), v.strip())
        same('str.lstrip', _str_of(s.lstrip()), v.lstrip())
        same('str.split,', [_str_of(x) for x in s.split(',')], v.split(','))
        same('str.split;', [_str_of(x) for x in s.split(';')], v.split(';'))
        same('str.partition', tuple(_str_of(x) for x in s.partition('=')), v.partition('='))
        same('str.startswith', s.startswith((' ', '\t', '\n', '\r')), v.startswith((' ', '\t', '\n', '\r')))
        if all(ord(ch) < 128 for ch in v):
            same('str.lower', _str_of(s.lower()), v.lower())
        same('str.encode', s.encode('utf-8'), v.encode('utf-8'))
    # int()
    import itertools
    for v in [b'101', b' 101 ', b'+7', b'-0', b'-12', b'1_0', b'_1', b'1__0', b'', b'1a', b'0x1', b'007'] + \
            [bytes(rnd.choice(b'0123456789 +-_a') for _ in range(rnd.randrange(1, 4))) for _ in range(400)]:
        for is_str in (False, True):
            try:
                want = int(v.decode('latin1')) if is_str else int(v)
            except ValueError:
                want = 'ValueError'
            try:
                seq = SymStr(cps=list(v)) if is_str else SymBytes(list(v))
                got = symdata.parse_int(seq, is_str)
                if isinstance(got, symdata.SymNegInt):
                    got = 'neg'
                    want = 'neg' if isinstance(want, int) and want < 0 else want
                elif isinstance(got, engine.SymInt):
                    got = got.concretize()
            except ValueError:
                got = 'ValueError'
            same('int(%r)' % v, got, want)
    # struct / base64 / tables
    import struct
    import base64
    for fmt, args in [('!BB', (129, 5)), ('!BBH', (1, 254, 65535)), ('!BBQ', (0, 255, 2 ** 63 - 1)), ('!H', (1000,)), ('4s', (b'abcd',))]:
        same('pack' + fmt, instrument._struct_pack(fmt, args), struct.pack(fmt, *args))
        data = struct.pack(fmt, *args)
        same('unpack' + fmt, instrument._struct_unpack(fmt, SymBytes(list(data))), struct.unpack(fmt, data))
    for k in range(0, 40):
        d = bytes(rnd.randrange(256) for _ in range(k))
        sym = [engine.SymInt(z3.BitVecVal(x, 8), 8) for x in d]
        got = env.sx_b64encode(SymBytes(sym)) if k else base64.b64encode(d)
        same('b64', got, base64.b64encode(d))
    tbl = bytes(rnd.randrange(256) for _ in range(400))
    for i in range(0, 400, 7):
        got = symdata.ite_table(list(tbl), engine.SymInt(z3.BitVecVal(i, 9), 9))
        same('ite_table', z3.simplify(got.e).as_long(), tbl[i])
    # UTF-8 acceptor == CPython's strict decoder: all 1- and 2-byte strings, boundary 3/4-byte ones, random
    def ok(b):
        try:
            b.decode('utf-8')
            return True
        except UnicodeDecodeError:
            return False
    cases = [bytes([a]) for a in range(256)] + [bytes([a, b]) for a in range(0x70, 256, 1) for b in range(0x70, 0xd0, 3)]
    for lead in (0xe0, 0xe1, 0xec, 0xed, 0xee, 0xef, 0xf0, 0xf1, 0xf3, 0xf4, 0xf5):
        for b1 in (0x7f, 0x80, 0x8f, 0x90, 0x9f, 0xa0, 0xbf, 0xc0):
            for b2 in (0x7f, 0x80, 0xbf, 0xc0):
                cases.append(bytes([lead, b1, b2]))
                cases.append(bytes([lead, b1, b2, 0x80]))
                cases.append(bytes([0x41, lead, b1, b2, 0xbf, 0x42]))
    cases += [bytes(rnd.choice([0x41, 0x80, 0xbf, 0xc2, 0xe0, 0xed, 0xf0, 0xf4, 0xa0, 0x9f, 0x90, 0x8f]) for _ in range(rnd.randrange(1, 6)))
              for _ in range(3000)]
    for b in cases:
        t = symdata.utf8_valid_term([engine.SymInt(z3.BitVecVal(x, 8), 8) for x in b])
        same('utf8-acceptor %r' % b, bool(z3.is_true(z3.simplify(t))), ok(b))
        if ok(b) and b:
            cps = symdata.utf8_decode_forking([engine.SymInt(z3.BitVecVal(x, 8), 8) for x in b])
            same('utf8-decode %r' % b, [x if isinstance(x, int) else z3.simplify(x.e).as_long() for x in cps],
                 [ord(ch) for ch in b.decode('utf-8')])
    # lenient UTF-8 decoding (errors='replace' / 'ignore') == CPython: the strict-acceptor cases above + random strings
    for b in cases:
        for err in ('replace', 'ignore'):
            same('utf8-lenient-%s %r' % (err, b), symdata.utf8_decode_lenient_items(list(b), err), [ord(ch) for ch in b.decode('utf-8', err)])
    # Unicode tables built from CPython's database, read back through the ITE encoding: lower() delta, decimal value, isdigit
    import unicodedata
    probe = ([0x41, 0x5A, 0x61, 0xB5, 0xC0, 0xDF, 0x130, 0x131, 0x17F, 0x212A, 0x212B, 0x2160, 0x24B6, 0xFF21, 0xFF3A, 0x1E9E, 0x10400, 0x1E900,
              0x30, 0x39, 0x660, 0x669, 0x6F0, 0x966, 0xFF10, 0xFF19, 0x1D7CE, 0x1D7FF, 0xB2, 0xB9, 0x2460, 0x2070, 0x3007, 0xD800, 0xDFFF, 0x10FFFF, 0]
             + [rnd.randrange(0x110000) for _ in range(1500)])
    for cp in probe:
        x = engine.SymInt(z3.BitVecVal(cp, 21), 21)
        if cp != 0x130:
            d = symdata.uni_table('lower-delta', symdata._lower_delta, 21, x)
            same('lower U+%04X' % cp, (cp + z3.simplify(d.e).as_long()) & 0x1FFFFF, ord(chr(cp).lower()))
        v = symdata.uni_table('decimal-value', symdata._decimal_value, 4, x)
        same('decimal U+%04X' % cp, z3.simplify(v.e).as_long(), unicodedata.decimal(chr(cp), 15))
        g = symdata.uni_table('isdigit', lambda q: 1 if chr(q).isdigit() else 0, 1, x)
        same('isdigit U+%04X' % cp, z3.simplify(g.e).as_long() == 1, chr(cp).isdigit())
    return n, bad


def _str_of(x):
    from symlomond.symdata import SymStr
    if isinstance(x, SymStr):
        return x.concretize()
    return x


def main():
    rc = 0
    n, bad = models()
    print('selftest: %d model comparisons against CPython, %d mismatches' % (n, len(bad)))
    for b in bad[:10]:
        print('  MODEL MISMATCH ' + b[:300])
    if bad:
        rc = 3
    if '--no-suite' not in sys.argv:
        npass, missing, disp = suite_on_instrumented()
        print('selftest: repository suite on the instrumented package: %d passed; %d of the baseline stable-pass set missing %s'
              % (npass, len(missing), ' '.join(disp)))
        for m in missing[:10]:
            print('  MISSING ' + m)
        if missing:
            rc = 3
    print('selftest rc=%d' % rc)
    return rc


if __name__ == '__main__':
    sys.exit(main())
