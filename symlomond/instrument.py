"""
symlomond.instrument -- shadow import of /repo/lomond with three mechanical AST rewrites

    X.m(a...)        ->  sx__.call(X, 'm', a...)
    a in S           ->  sx__.contains(S, a)         (not in: negated)
    C[i]   (load)    ->  sx__.getitem(C, i)

plus symbolic-aware shims for the builtins / library names lomond uses at a C boundary.
The rewrite never looks at *what* the code does, so an edited lomond is instrumented the same
way.  Source is read from $LOMOND_SRC (default /repo/lomond) on every import; nothing is cached.
"""
import ast
import builtins
import importlib.abc
import importlib.util
import os
import struct as _struct
import sys
import types
import collections as _collections
import z3
from .engine import bvv

from . import engine
from .engine import SymInt, SymBool, SymReal, EngineLimit, Ctx
from . import symdata
from .symdata import (SymSeq, SymBytes, SymByteArray, SymMemoryView, SymStr, RowSel, mk_bytes, mk_str,
                      items_of, has_sym, ite_table, eq_items)

ROOT = os.environ.get('LOMOND_SRC', '/repo/lomond')
PASSTHROUGH = os.environ.get('SX_PASSTHROUGH') == '1'     # suite-on-instrumented-package validation

_bytes = builtins.bytes
_bytearray = builtins.bytearray
_memoryview = builtins.memoryview
_str = builtins.str
_int = builtins.int
_min = builtins.min
_max = builtins.max


# =============================================================================================
# shims for builtins
# =============================================================================================

class _BytesMeta(type):
    def __instancecheck__(cls, x):
        return isinstance(x, _bytes) or isinstance(x, SymBytes) or isinstance(x, symdata.SymLenBytes)

    def __subclasscheck__(cls, sub):
        return issubclass(sub, _bytes) or issubclass(sub, SymBytes)

    def __eq__(cls, other):
        return other is cls or other is _bytes

    def __hash__(cls):
        return hash(_bytes)


class sx_bytes(metaclass=_BytesMeta):
    def __new__(cls, x=b'', *a, **k):
        if a or k:
            return _bytes(x, *a, **k)
        if isinstance(x, SymSeq):
            return mk_bytes(x._get())
        if isinstance(x, symdata.SymLenBytes):
            return x
        if isinstance(x, symdata.SymLenByteArray):
            return symdata.SymLenBytes(x.symlen, x.src, x.lanes, x.prefix)
        if isinstance(x, _int) and not isinstance(x, bool):
            return _bytes(x)
        if isinstance(x, (_bytes, _bytearray, _memoryview)):
            return _bytes(x)
        if isinstance(x, (SymStr, _str)):
            raise TypeError('string argument without an encoding')
        # generic iterable of ints (possibly symbolic)
        return mk_bytes(list(x))

    fromhex = _bytes.fromhex
    maketrans = _bytes.maketrans


class _BAMeta(type):
    def __instancecheck__(cls, x):
        return isinstance(x, (_bytearray, SymByteArray, symdata.SymLenByteArray))


class sx_bytearray(metaclass=_BAMeta):
    def __new__(cls, x=b'', *a, **k):
        if a or k:
            return SymByteArray(list(_bytearray(x, *a, **k)))
        if isinstance(x, SymInt):
            x = x.concretize()
        if isinstance(x, _int) and not isinstance(x, bool):
            return SymByteArray([0] * x)
        if isinstance(x, SymSeq):
            return SymByteArray(x._get())
        if isinstance(x, symdata.SymLenBase):
            if isinstance(x, (symdata.SymLenBytes, symdata.SymLenByteArray)):
                return symdata.SymLenByteArray(x.symlen, x.src, x.lanes, x.prefix)
            raise EngineLimit('bytearray() of %s' % type(x).__name__)
        if isinstance(x, (SymStr, _str)):
            raise TypeError('string argument without an encoding')
        return SymByteArray(list(x))


class _MVMeta(type):
    def __instancecheck__(cls, x):
        return isinstance(x, (_memoryview, SymMemoryView))


class sx_memoryview(metaclass=_MVMeta):
    def __new__(cls, x):
        if isinstance(x, SymByteArray):
            return SymMemoryView(x)
        if isinstance(x, SymMemoryView):
            return SymMemoryView(x)
        if isinstance(x, SymBytes):
            return x
        if getattr(x, '_sx_abstract_buffer', False):
            # an abstract (symbolic-length) payload has no view model: inconclusive, never a TypeError of the code under test
            raise EngineLimit('memoryview() of an abstract-length payload')
        return _memoryview(x)


class _StrMeta(type):
    def __instancecheck__(cls, x):
        return isinstance(x, (_str, SymStr))

    def __eq__(cls, other):
        return other is cls or other is _str

    def __hash__(cls):
        return hash(_str)


class sx_str(metaclass=_StrMeta):
    def __new__(cls, x='', *a, **k):
        if isinstance(x, SymStr):
            return x
        if isinstance(x, SymSeq):
            if a or k:
                return x.decode(*a, **k)
            return '<symbytes>'
        return _str(x, *a, **k)

    maketrans = _str.maketrans


class _IntMeta(type):
    def __instancecheck__(cls, x):
        return isinstance(x, (_int, SymInt))


class sx_int(metaclass=_IntMeta):
    def __new__(cls, x=0, *a, **k):
        if a or k:
            return _int(x, *a, **k)
        if isinstance(x, SymInt):
            return x
        if isinstance(x, SymBool):
            return SymInt.lift(x)
        if isinstance(x, SymStr):
            return symdata.parse_int(x, True)
        if isinstance(x, SymSeq):
            return symdata.parse_int(x, False)
        if isinstance(x, SymReal):
            raise EngineLimit('int() of symbolic real')
        return _int(x)


def sx_min(*a, **k):
    if len(a) == 2 and not k and (engine.is_sym(a[0]) or engine.is_sym(a[1])):
        x, y = a
        if isinstance(x, SymReal) or isinstance(y, SymReal):
            return SymReal(z3.If(engine._r(x) <= engine._r(y), engine._r(x), engine._r(y)))
        return x if bool(x <= y) else y
    return _min(*a, **k)


def sx_max(*a, **k):
    if len(a) == 2 and not k and (engine.is_sym(a[0]) or engine.is_sym(a[1])):
        x, y = a
        if isinstance(x, SymReal) or isinstance(y, SymReal):
            return SymReal(z3.If(engine._r(x) >= engine._r(y), engine._r(x), engine._r(y)))
        return x if bool(x >= y) else y
    return _max(*a, **k)


class _FloatMeta(type):
    def __instancecheck__(cls, x):
        return isinstance(x, (builtins.float, SymReal))


class sx_float(metaclass=_FloatMeta):
    """float(): a symbolic real stays the same real (floats are idealised as reals)"""
    def __new__(cls, x=0.0):
        if isinstance(x, SymReal):
            return x
        if isinstance(x, (SymInt, SymBool)):
            raise EngineLimit('float() of a symbolic integer')
        return builtins.float(x)


_len = builtins.len


def sx_len(x):
    n = getattr(x, '_sx_symlen', None)
    if n is not None:
        return n
    return _len(x)


def sx_bool(x=False):
    return builtins.bool(x)


def sx_ord(x):
    if isinstance(x, SymStr):
        it = x._get()
        if len(it) != 1:
            raise TypeError('ord() expected a character')
        return it[0]
    if isinstance(x, SymSeq):
        it = x._get()
        if len(it) != 1:
            raise TypeError('ord() expected a character')
        return it[0]
    return builtins.ord(x)


def sx_chr(x):
    if isinstance(x, SymInt):
        return SymStr(cps=[x])
    return builtins.chr(x)


class _SixShim(object):
    """stands in for the `six` module inside the instrumented package"""
    PY2 = False
    PY3 = True
    text_type = sx_str
    binary_type = sx_bytes
    string_types = (sx_str,)
    integer_types = (sx_int,)

    def __getattr__(self, name):
        import six
        return getattr(six, name)


SIX = _SixShim()

BUILTIN_SHIMS = {
    'bytes': sx_bytes,
    'bytearray': sx_bytearray,
    'memoryview': sx_memoryview,
    'int': sx_int,
    'min': sx_min,
    'max': sx_max,
    'ord': sx_ord,
    'chr': sx_chr,
    'len': sx_len,
    'float': sx_float,
}

# library objects replaced *by identity* after a module body has run (import statements bind the
# real object; we swap the binding).  Filled by env.py (socket/ssl/select/time/threading/zlib...).
REPLACE_BY_ID = {}
# names forced in specific modules after exec:  {module_name: {global_name: value}}
MODULE_GLOBALS = {}


def register_replacement(real_obj, shim):
    REPLACE_BY_ID[id(real_obj)] = (real_obj, shim)


import six as _real_six
register_replacement(_real_six, SIX)
register_replacement(_real_six.text_type, sx_str)


# =============================================================================================
# the dispatcher the rewritten code calls
# =============================================================================================

def _struct_fmt(fn):
    s = getattr(fn, '__self__', None)
    if isinstance(s, _struct.Struct):
        return s.format
    return None


def _struct_pack(fmt, args):
    out = []
    f = fmt.lstrip('!><=@')
    if fmt[:1] not in ('!', '>'):
        if any(c in f for c in 'HQIL'):
            raise EngineLimit('struct format %r (not big-endian) with symbolic args' % fmt)
    ai = 0
    i = 0
    while i < len(f):
        c = f[i]
        cnt = ''
        while c.isdigit():
            cnt += c
            i += 1
            c = f[i]
        i += 1
        if c == 's':
            n = _int(cnt or '1')
            it = items_of(args[ai])
            ai += 1
            it = (it + [0] * n)[:n]
            out.extend(it)
            continue
        size = {'B': 1, 'H': 2, 'I': 4, 'L': 4, 'Q': 8}.get(c)
        if size is None:
            raise EngineLimit('struct format char %r' % c)
        for _ in range(_int(cnt or '1')):
            v = args[ai]
            ai += 1
            if isinstance(v, SymBool):
                v = SymInt.lift(v)
            if isinstance(v, SymInt):
                if v.w > size * 8:
                    # Python raises struct.error when out of range: fork on it
                    if bool(v >= (1 << (size * 8))):
                        raise _struct.error('argument out of range')
                    v = SymInt(z3.Extract(size * 8 - 1, 0, v.e), size * 8)
                e = v.at(size * 8)
                for b in range(size - 1, -1, -1):
                    out.append(SymInt(z3.simplify(z3.Extract(b * 8 + 7, b * 8, e)), 8))
            else:
                out.extend(_struct.pack('!' + c, v))
    if ai != len(args):
        raise _struct.error('pack expected %d items' % ai)
    return mk_bytes([o if not (isinstance(o, SymInt) and z3.is_bv_value(o.e)) else o.e.as_long() for o in out])


def _struct_unpack(fmt, data):
    f = fmt.lstrip('!><=@')
    if fmt[:1] not in ('!', '>') and any(c in f for c in 'HQIL'):
        raise EngineLimit('struct format %r (not big-endian) with symbolic data' % fmt)
    it = items_of(data)
    need = _struct.calcsize(fmt)
    if len(it) != need:
        raise _struct.error('unpack requires a buffer of %d bytes' % need)
    out = []
    pos = 0
    i = 0
    while i < len(f):
        c = f[i]
        cnt = ''
        while c.isdigit():
            cnt += c
            i += 1
            c = f[i]
        i += 1
        if c == 's':
            n = _int(cnt or '1')
            out.append(mk_bytes(it[pos:pos + n]))
            pos += n
            continue
        size = {'B': 1, 'H': 2, 'I': 4, 'L': 4, 'Q': 8}.get(c)
        if size is None:
            raise EngineLimit('struct format char %r' % c)
        for _ in range(_int(cnt or '1')):
            chunk = it[pos:pos + size]
            if symdata._concrete(chunk):
                v = _int.from_bytes(_bytes(chunk), 'big')
            else:
                v = 0
                for b in chunk:
                    if isinstance(v, _int) and v == 0:
                        v = b
                    else:
                        v = (SymInt.lift(v) << 8) | b
            pos += size
            out.append(v)
    return tuple(out)


def _contains_range(item, values):
    vals = sorted(v for v in values if isinstance(v, _int) and not isinstance(v, bool) and v >= 0)
    if len(vals) != len(values):
        return None
    conds = []
    w = item.w
    lo = prev = None
    for v in vals + [None]:
        if lo is None:
            lo = prev = v
            continue
        if v is not None and v == prev + 1:
            prev = v
            continue
        if lo < (1 << w):
            hi = _min(prev, (1 << w) - 1)
            conds.append(z3.And(z3.UGE(item.e, bvv(lo, w)), z3.ULE(item.e, bvv(hi, w))))
        lo = prev = v
    if not conds:
        return SymBool(z3.BoolVal(False))
    return SymBool(z3.Or(conds) if len(conds) > 1 else conds[0])


import re as _re
import codecs as _codecs

_SAFE_BUILTINS = frozenset([len, iter, next, isinstance, issubclass, hasattr, getattr, setattr, repr, sorted, print, id,
                            abs, sum, any, all, format, hash, callable, divmod, builtins.bool] +
                           [getattr(builtins, n) for n in ('min', 'max', 'ord', 'chr')])


def _model_utf_8_decode(data, errors='strict', final=False):
    """codecs.utf_8_decode: returns (text, consumed); with final=False an incomplete trailing sequence is left unconsumed"""
    from .refmodel import utf8_doom_offset
    it = items_of(data)
    n = len(it)
    if errors != 'strict':
        raise EngineLimit('codecs.utf_8_decode(errors=%r) on symbolic data' % (errors,))
    if final:
        return symdata.decode_items(it, 'utf-8', 'strict'), n
    for k in range(n, _max(-1, n - 4), -1):
        if Ctx.cur.branch(symdata.utf8_valid_term(it[:k])):
            tail = it[k:]
            if tail and utf8_doom_offset(tail, list(range(1, len(tail) + 1))) is not None:
                raise UnicodeDecodeError('utf-8', b'\xff', 0, 1, 'invalid continuation byte (symbolic)')
            return (symdata.SymStr(utf8=it[:k]) if not symdata._concrete(it[:k]) else _bytes(it[:k]).decode('utf-8')), k
    raise UnicodeDecodeError('utf-8', b'\xff', 0, 1, 'invalid start byte (symbolic)')


def _model_round(x, ndigits=None):
    """round() of a symbolic real, idealised over the reals: round-half-even to `ndigits` decimals"""
    if not isinstance(x, SymReal) or isinstance(ndigits, (SymInt, SymReal)):
        raise EngineLimit('round() of %s' % type(x).__name__)
    if ndigits is None:
        raise EngineLimit('round() of a symbolic real to an integer')
    k = z3.RealVal(10) ** ndigits if ndigits >= 0 else 1 / (z3.RealVal(10) ** (-ndigits))
    k = z3.simplify(k)
    y = x.e * k
    fi = z3.ToInt(y)
    f = z3.ToReal(fi)
    frac = y - f
    r = z3.If(frac > z3.RealVal('1/2'), f + 1, z3.If(frac < z3.RealVal('1/2'), f, z3.If(fi % 2 == 0, f, f + 1)))
    return SymReal(r / k)


NATIVE_MODELS = {_codecs.utf_8_decode: _model_utf_8_decode, builtins.round: _model_round}


class FakeMatch(object):
    def __init__(self, i, j):
        self._i, self._j = i, j

    def start(self, *a):
        return self._i

    def end(self, *a):
        return self._j

    def span(self, *a):
        return (self._i, self._j)

    def __bool__(self):
        return True


def regex_model(pat, name, a, k):
    """re.Pattern.search/match/fullmatch for patterns that are ONE character class (the usual fast-path idiom,
    e.g. [\\x80-\\xff]); anything else is beyond the model"""
    import re._parser as rp
    parsed = list(rp.parse(pat.pattern, pat.flags & ~_re.UNICODE if isinstance(pat.pattern, _bytes) else pat.flags))
    if len(parsed) != 1 or k or len(a) != 1 or name not in ('search', 'match', 'fullmatch'):
        raise EngineLimit('un-modelled regular expression %r.%s on symbolic data' % (pat.pattern, name))
    op, arg = parsed[0]
    ranges = []
    negate = False
    if str(op) == 'LITERAL':
        ranges.append((arg, arg))
    elif str(op) == 'IN':
        for o2, a2 in arg:
            if str(o2) == 'NEGATE':
                negate = True
            elif str(o2) == 'LITERAL':
                ranges.append((a2, a2))
            elif str(o2) == 'RANGE':
                ranges.append(tuple(a2))
            else:
                raise EngineLimit('un-modelled regular expression %r on symbolic data' % (pat.pattern,))
    else:
        raise EngineLimit('un-modelled regular expression %r on symbolic data' % (pat.pattern,))
    data = a[0]
    items = items_of(data) if not isinstance(data, (SymStr, _str)) else symdata._str_items(data)

    def member(x):
        if isinstance(x, _int):
            r = any(lo <= x <= hi for lo, hi in ranges)
        else:
            x = SymInt.lift(x)
            r = bool(SymBool(z3.Or([z3.And(z3.UGE(x.e, engine.bvv(lo, x.w)), z3.ULE(x.e, engine.bvv(_min(hi, (1 << x.w) - 1), x.w)))
                                    for lo, hi in ranges if lo < (1 << x.w)] or [z3.BoolVal(False)])))
        return r != negate
    if name == 'search':
        for i, x in enumerate(items):
            if member(x):
                return FakeMatch(i, i + 1)
        return None
    if not items:
        return None
    if name == 'fullmatch' and len(items) != 1:
        return None
    return FakeMatch(0, 1) if member(items[0]) else None


_NATIVE_SEQ = (_bytes, _bytearray, _memoryview)
_PURE = frozenset(['find', 'index', 'split', 'partition', 'startswith', 'endswith', 'strip', 'lstrip',
                   'rstrip', 'lower', 'upper', 'decode', 'hex'])


class SX(object):
    calls = 0
    unmodelled = []

    @staticmethod
    def call(obj, name, *a, **k):
        SX.calls += 1
        f = getattr(obj, name)
        # fast path: nothing symbolic
        if isinstance(obj, (SymSeq, SymStr)):
            if name in _PURE and not isinstance(obj, SymStr):
                it = obj._get()
                if symdata._concrete(it) and not has_sym(a):
                    return getattr(_bytes(it), name)(*a, **k)
            return f(*a, **k)
        sym = False
        for x in a:
            if has_sym(x):
                sym = True
                break
        if not sym and k:
            for x in k.values():
                if has_sym(x):
                    sym = True
                    break
        if not sym:
            # generator / iterator arguments may yield symbolic items (b''.join(genexpr))
            if name == 'join' and isinstance(obj, (_bytes, _str)) and len(a) == 1 and not isinstance(a[0], (list, tuple)):
                parts = list(a[0])
                if has_sym(parts):
                    return SX._join(obj, parts)
                return f(parts)
            return f(*a, **k)
        # ---- symbolic argument reaching a native object ----
        if isinstance(obj, _bytes) or isinstance(obj, _bytearray):
            if name == 'join':
                return SX._join(obj, list(a[0]))
            s = SymBytes(list(obj)) if isinstance(obj, _bytes) else SymByteArray(list(obj))
            return getattr(s, name)(*a, **k)
        if isinstance(obj, _str):
            if name == 'join':
                return SX._join(obj, list(a[0]))
            if name == 'format':
                return SX._format(obj, a, k)
            s = SymStr(cps=[ord(c) for c in obj])
            return getattr(s, name)(*a, **k)
        fmt = _struct_fmt(f)
        if fmt is not None:
            fname = getattr(f, '__name__', '')
            if fname == 'pack':
                return _struct_pack(fmt, a)
            if fname == 'unpack':
                return _struct_unpack(fmt, a[0])
            if fname == 'pack_into':
                buf, off = a[0], a[1]
                if isinstance(off, SymInt):
                    off = off.concretize()
                it = items_of(_struct_pack(fmt, a[2:]))
                if off + len(it) > len(buf):
                    raise _struct.error('pack_into requires a buffer of at least %d bytes' % (off + len(it)))
                if isinstance(buf, (SymByteArray, SymMemoryView)):
                    buf[off:off + len(it)] = it
                elif symdata._concrete(it):
                    buf[off:off + len(it)] = _bytes(it)
                else:
                    raise EngineLimit('struct.pack_into of symbolic values into a native buffer')
                return None
            if fname == 'unpack_from':
                off = a[1] if len(a) > 1 else k.get('offset', 0)
                n = _struct.calcsize(fmt)
                return _struct_unpack(fmt, mk_bytes(items_of(a[0])[off:off + n]))
            raise EngineLimit('struct.%s with symbolic argument' % fname)
        if isinstance(obj, (list, dict, set, tuple, types.GeneratorType, _collections.deque, _collections.OrderedDict, _collections.defaultdict)) or \
                isinstance(f, (types.FunctionType, types.MethodType)) or isinstance(obj, type):
            # containers hold symbolic values natively; python-level callables just get them
            return f(*a, **k)
        if getattr(obj, '_sx_accepts_symbolic', False):
            return f(*a, **k)
        if isinstance(obj, types.ModuleType):
            if isinstance(f, types.BuiltinFunctionType):
                m = NATIVE_MODELS.get(f)
                if m is None:
                    raise EngineLimit('un-modelled native function %s.%s called with a symbolic argument'
                                      % (obj.__name__, name))
                return m(*a, **k)
            return f(*a, **k)
        if isinstance(obj, _re.Pattern):
            return regex_model(obj, name, a, k)
        if isinstance(f, types.BuiltinFunctionType) and isinstance(getattr(f, '__self__', None), (list, dict, set)):
            return f(*a, **k)
        # python-level bound callables (functools.partial, classes) are fine too
        if callable(f) and not isinstance(f, (types.BuiltinFunctionType, types.BuiltinMethodType)):
            return f(*a, **k)
        raise EngineLimit('un-modelled native call %s.%s with symbolic argument'
                          % (type(obj).__name__, name))

    @staticmethod
    def callf(f, *a, **k):
        """plain-name call f(a...): python-level callables and sym-aware builtins get the values as they are; a C
        function that would receive a symbolic value needs a model (else: EngineLimit naming it, exit 3)"""
        if isinstance(f, types.BuiltinFunctionType) and f not in _SAFE_BUILTINS:
            sym = False
            for x in a:
                if has_sym(x):
                    sym = True
                    break
            if not sym:
                for x in k.values():
                    if has_sym(x):
                        sym = True
                        break
            if sym:
                m = NATIVE_MODELS.get(f)
                if m is None:
                    raise EngineLimit('un-modelled native function %s.%s called with a symbolic argument'
                                      % (getattr(f, '__module__', '?'), getattr(f, '__name__', f)))
                return m(*a, **k)
        return f(*a, **k)

    @staticmethod
    def fix(d):
        """after an import statement: swap library objects for their stubs in module globals"""
        if PASSTHROUGH:
            return
        for name, val in list(d.items()):
            rep = REPLACE_BY_ID.get(id(val))
            if rep is not None and rep[0] is val:
                d[name] = rep[1]

    @staticmethod
    def _join(sep, parts):
        if isinstance(sep, _str):
            out = []
            for i, p in enumerate(parts):
                if i:
                    out.extend(ord(c) for c in sep)
                if not isinstance(p, (_str, SymStr)):
                    raise TypeError('sequence item %d: expected str instance' % i)
                out.extend(symdata._str_items(p))
            return mk_str(out)
        out = []
        for i, p in enumerate(parts):
            if i:
                out.extend(sep)
            if isinstance(p, (_str, SymStr)):
                raise TypeError('sequence item %d: expected a bytes-like object, str found' % i)
            if isinstance(p, symdata.SymLenBase):
                if not isinstance(p, (symdata.SymLenBytes, symdata.SymLenByteArray)) or i != len(parts) - 1 \
                        or isinstance(sep, _bytearray):
                    raise EngineLimit('join with a symbolic-length part that is not the last one')
                return symdata.SymLenBytes(p.symlen, p.src, p.lanes, out + list(getattr(p, 'prefix', ())))
            out.extend(items_of(p))
        if isinstance(sep, _bytearray):
            return SymByteArray(out)
        return mk_bytes(out)

    @staticmethod
    def _format(fmt, a, k):
        # only used for messages; symbolic parts become opaque markers
        def conv(x):
            if isinstance(x, SymStr):
                # text that could hold a format metacharacter is made concrete on that branch (a str built from it may
                # be used as a format template later); otherwise it stays an opaque marker
                its = x._get()
                cs = [z3.Or(SymInt.lift(i).at(21) == 0x7B, SymInt.lift(i).at(21) == 0x7D) for i in its if not isinstance(i, _int)]
                has = any(i in (0x7B, 0x7D) for i in its if isinstance(i, _int))
                if has or (cs and Ctx.cur.branch(z3.Or(cs) if len(cs) > 1 else cs[0])):
                    return ''.join(chr(i if isinstance(i, _int) else i.concretize()) for i in its)
                return SymMarker(x)
            if isinstance(x, (SymInt, SymBool, SymReal, SymSeq, SymStr, symdata.SymNegInt)):
                return SymMarker(x)
            return x
        return fmt.format(*[conv(x) for x in a], **{kk: conv(v) for kk, v in k.items()})

    @staticmethod
    def contains(container, item):
        if isinstance(item, SymInt):
            if isinstance(container, (set, frozenset)):
                r = _contains_range(item, list(container))
                if r is not None:
                    return r
            if isinstance(container, (list, tuple)):
                r = _contains_range(item, list(container))
                if r is not None:
                    return r
            if isinstance(container, dict):
                r = _contains_range(item, list(container.keys()))
                if r is not None:
                    return r
            if isinstance(container, range) and container.step == 1:
                return SymBool(z3.And(z3.UGE(item.at(engine.MAXW), bvv(_max(container.start, 0), engine.MAXW)),
                                      z3.ULT(item.at(engine.MAXW), bvv(_max(container.stop, 0), engine.MAXW))))
        if isinstance(container, (_bytes, _bytearray)) and has_sym(item):
            return item in SymBytes(list(container))
        if isinstance(container, _str) and isinstance(item, SymStr):
            return SymStr(cps=[ord(c) for c in container]).find(item) != -1
        return item in container

    @staticmethod
    def getitem(c, i):
        if isinstance(i, SymInt):
            if isinstance(c, (_bytes, _bytearray)):
                return ite_table(list(c), i)
            if isinstance(c, (list, tuple)):
                if c and all(isinstance(v, _int) and not isinstance(v, bool) and v >= 0 for v in c):
                    return ite_table(list(c), i)
                if len(c) == 256 and all(isinstance(v, (_bytes, _bytearray)) for v in c):
                    return RowSel(c, i)
                return c[i.concretize()]
            if isinstance(c, _str):
                return mk_str([ite_table([ord(ch) for ch in c], i)])
        elif isinstance(i, slice) and (isinstance(i.start, SymInt) or isinstance(i.stop, SymInt)):
            if isinstance(c, _bytes):
                return SymBytes(list(c))[i]
            if isinstance(c, _bytearray):
                return SymByteArray(list(c))[i]
            if isinstance(c, _memoryview):
                return SymBytes(list(c))[i]
        return c[i]


class SymMarker(object):
    """placeholder used when a symbolic value is formatted into a message string"""

    def __init__(self, v):
        self.v = v

    def __format__(self, spec):
        return '<sym>'

    __str__ = __repr__ = lambda self: '<sym>'


builtins.sx__ = SX


# =============================================================================================
# AST rewrite + import hook
# =============================================================================================

class Rewriter(ast.NodeTransformer):
    def visit_Call(self, node):
        self.generic_visit(node)
        f = node.func
        if (isinstance(f, ast.Name) and f.id not in ('super', 'globals', 'locals', 'vars', 'dir', 'eval', 'exec')
                and not any(isinstance(a, ast.Starred) for a in node.args)
                and not any(kw.arg is None for kw in node.keywords)):
            new = ast.Call(
                func=ast.Attribute(value=ast.Name(id='sx__', ctx=ast.Load()), attr='callf', ctx=ast.Load()),
                args=[f] + node.args, keywords=node.keywords)
            return ast.copy_location(new, node)
        if (isinstance(f, ast.Attribute)
                and not any(isinstance(a, ast.Starred) for a in node.args)
                and not any(kw.arg is None for kw in node.keywords)
                and not (isinstance(f.value, ast.Call) and isinstance(f.value.func, ast.Name)
                         and f.value.func.id == 'super')):
            new = ast.Call(
                func=ast.Attribute(value=ast.Name(id='sx__', ctx=ast.Load()), attr='call', ctx=ast.Load()),
                args=[f.value, ast.Constant(f.attr)] + node.args, keywords=node.keywords)
            return ast.copy_location(new, node)
        return node

    def _fix_stmt(self, node):
        fix = ast.Expr(ast.Call(
            func=ast.Attribute(value=ast.Name(id='sx__', ctx=ast.Load()), attr='fix', ctx=ast.Load()),
            args=[ast.Call(func=ast.Name(id='globals', ctx=ast.Load()), args=[], keywords=[])], keywords=[]))
        return [node, ast.copy_location(fix, node)]

    def visit_Import(self, node):
        return self._fix_stmt(node)

    def visit_ImportFrom(self, node):
        if node.module == '__future__':
            return node
        return self._fix_stmt(node)

    def visit_Compare(self, node):
        self.generic_visit(node)
        if len(node.ops) == 1 and isinstance(node.ops[0], (ast.In, ast.NotIn)):
            c = ast.Call(func=ast.Attribute(value=ast.Name(id='sx__', ctx=ast.Load()), attr='contains', ctx=ast.Load()),
                         args=[node.comparators[0], node.left], keywords=[])
            if isinstance(node.ops[0], ast.NotIn):
                c = ast.UnaryOp(op=ast.Not(), operand=c)
            return ast.copy_location(c, node)
        return node

    def visit_Subscript(self, node):
        self.generic_visit(node)
        if isinstance(node.ctx, ast.Load):
            c = ast.Call(func=ast.Attribute(value=ast.Name(id='sx__', ctx=ast.Load()), attr='getitem', ctx=ast.Load()),
                         args=[node.value, node.slice], keywords=[])
            return ast.copy_location(c, node)
        return node




_CODE_CACHE = {}


def reload_fresh():
    """forget the imported (instrumented) package: the next import executes the module bodies again, so module- and
    class-level state cannot be carried from one explored path to the next"""
    for m in list(sys.modules):
        if m == 'lomond' or m.startswith('lomond.'):
            del sys.modules[m]


class _Loader(importlib.abc.Loader):
    def __init__(self, path):
        self.path = path

    def create_module(self, spec):
        return None

    def exec_module(self, module):
        code = _CODE_CACHE.get(self.path)
        if code is None:
            with open(self.path) as fh:
                src = fh.read()
            tree = Rewriter().visit(ast.parse(src, self.path))
            ast.fix_missing_locations(tree)
            code = _CODE_CACHE[self.path] = compile(tree, self.path, 'exec')
        if not PASSTHROUGH:
            module.__dict__.update(BUILTIN_SHIMS)
        exec(code, module.__dict__)
        if not PASSTHROUGH:
            d = module.__dict__
            for name, val in list(d.items()):
                rep = REPLACE_BY_ID.get(id(val))
                if rep is not None and rep[0] is val:
                    d[name] = rep[1]
            for name, val in MODULE_GLOBALS.get(module.__name__, {}).items():
                d[name] = val


class _Finder(importlib.abc.MetaPathFinder):
    def find_spec(self, name, path, target=None):
        if name == 'lomond' or name.startswith('lomond.'):
            rel = name.split('.')[1:]
            d = os.path.join(ROOT, *rel)
            if os.path.isdir(d):
                init = os.path.join(d, '__init__.py')
                return importlib.util.spec_from_file_location(
                    name, init, loader=_Loader(init), submodule_search_locations=[d])
            f = d + '.py'
            if os.path.exists(f):
                return importlib.util.spec_from_file_location(name, f, loader=_Loader(f))
        return None


_installed = False


def install():
    global _installed
    if _installed:
        return
    for m in list(sys.modules):
        if m == 'lomond' or m.startswith('lomond.'):
            del sys.modules[m]
    sys.meta_path.insert(0, _Finder())
    _installed = True


def source_digest():
    """sha256 over the instrumented source files (recorded in evidence: which tree was encoded)"""
    import hashlib
    h = hashlib.sha256()
    for fn in sorted(os.listdir(ROOT)):
        if fn.endswith('.py'):
            with open(os.path.join(ROOT, fn), 'rb') as fh:
                h.update(fn.encode() + b'\0' + fh.read())
    return h.hexdigest()[:16]


# =============================================================================================
# module- / class-level state of the package under test must not leak from one explored path into the next
# =============================================================================================

def _fp(x, depth, seen):
    if isinstance(x, (_int, float, _str, _bytes, bool, type(None))):
        return x if not isinstance(x, (_str, _bytes)) or len(x) < 64 else (type(x).__name__, len(x), hash(x))
    if id(x) in seen or depth <= 0:
        return type(x).__name__
    if isinstance(x, (_bytearray,)):
        return ('bytearray', _bytes(x))
    if isinstance(x, (SymSeq, SymStr)):
        it = x._get()
        return (type(x).__name__, len(it), tuple(i if isinstance(i, _int) else 'sym' for i in it[:64]))
    if isinstance(x, (list, tuple)):
        if len(x) > 64:
            return (type(x).__name__, len(x))
        seen = seen | {id(x)}
        return (type(x).__name__,) + tuple(_fp(i, depth - 1, seen) for i in x)
    if isinstance(x, (set, frozenset)):
        return (type(x).__name__, len(x))
    if isinstance(x, dict):
        if len(x) > 64:
            return ('dict', len(x))
        seen = seen | {id(x)}
        return ('dict',) + tuple((repr(k), _fp(v, depth - 1, seen)) for k, v in x.items())
    cls = type(x)
    if getattr(cls, '__module__', '').startswith('lomond') and not isinstance(x, type):
        seen = seen | {id(x)}
        d = getattr(x, '__dict__', None)
        items = list(d.items()) if d is not None else [(n, getattr(x, n, None)) for n in getattr(cls, '__slots__', ())]
        return (cls.__name__,) + tuple((k, _fp(v, depth - 1, seen)) for k, v in items)
    return cls.__name__


def state_fingerprint():
    """structural digest of the mutable module-level and class-level state of every imported lomond module"""
    out = []
    for name in sorted(m for m in sys.modules if m == 'lomond' or m.startswith('lomond.')):
        mod = sys.modules[name]
        for k, v in sorted(vars(mod).items()):
            if isinstance(v, types.FunctionType) and getattr(v, '__module__', None) == name and (v.__defaults__ or v.__kwdefaults__):
                out.append((name, k, 'defaults', _fp(list(v.__defaults__ or ()), 4, frozenset()), _fp(dict(v.__kwdefaults__ or {}), 4, frozenset())))
                continue
            if k.startswith('__') or isinstance(v, (types.ModuleType, types.FunctionType, types.BuiltinFunctionType)):
                continue
            if isinstance(v, type):
                if getattr(v, '__module__', None) == name:
                    for ck, cv in sorted(vars(v).items()):
                        fn = cv.__func__ if isinstance(cv, (classmethod, staticmethod)) else cv
                        if isinstance(fn, types.FunctionType):
                            # default argument values are evaluated once and live as long as the function
                            if fn.__defaults__ or fn.__kwdefaults__:
                                out.append((name, k, ck, 'defaults', _fp(list(fn.__defaults__ or ()), 4, frozenset()),
                                            _fp(dict(fn.__kwdefaults__ or {}), 4, frozenset())))
                            continue
                        if ck.startswith('__') or callable(cv) or isinstance(cv, (property, classmethod, staticmethod, types.MemberDescriptorType)):
                            continue
                        out.append((name, k, ck, _fp(cv, 4, frozenset())))
                continue
            out.append((name, k, _fp(v, 4, frozenset())))
    return hash(repr(out))


STATE = {'baseline': None, 'reloads': 0}


def import_all():
    import importlib
    for fn in sorted(os.listdir(ROOT)):
        if fn.endswith('.py') and fn != '__init__.py' and fn != '__main__.py':
            importlib.import_module('lomond.' + fn[:-3])


def ensure_clean_state():
    """called at the start of every explored path: if a previous path left module/class-level state behind, the package
    is imported afresh (module bodies executed again from the cached instrumented code).  The baseline is taken right
    after a complete import of every module of the package, i.e. on a state no path has touched."""
    if STATE['baseline'] is None:
        import_all()
        STATE['baseline'] = state_fingerprint()
        return
    if state_fingerprint() != STATE['baseline']:
        STATE['reloads'] += 1
        reload_fresh()
        import_all()
        STATE['baseline'] = state_fingerprint()
