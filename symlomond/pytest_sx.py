"""pytest plugin: run the repository's own suite against the AST-instrumented shadow package
(shims in pass-through mode) -- translator validation (SX_PASSTHROUGH=1)."""
import os
os.environ.setdefault('SX_PASSTHROUGH', '1')
from symlomond import instrument
instrument.install()


def pytest_sessionfinish(session, exitstatus):
    print('\n[sx] instrumented method calls dispatched: %d' % instrument.SX.calls)
