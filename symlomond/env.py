"""
symlomond.env -- nondeterministic environment stubs for the instrumented package.

socket / ssl / select / time / threading / os.urandom / sha1 / b64encode / random / zlib are replaced
inside the shadow modules by objects that consult the current `World`.  Everything a stub decides
(which call fails, how many bytes a read returns, how far the clock advances, ...) is either fixed
by the harness or a solver variable obtained from the engine -- never the real OS.
"""
import base64 as _base64
import hashlib as _hashlib
import os as _os
import random as _random
import select as _select
import socket as _socket
import ssl as _ssl
import threading as _threading
import time as _time
import types
import zlib as _zlib
import z3

from . import engine, symdata, instrument
from .engine import Ctx, SymInt, SymBool, SymReal, EngineLimit, PathAbort
from .symdata import SymSeq, SymBytes, SymByteArray, SymMemoryView, SymStr, mk_bytes, items_of, has_sym


class LoopBudget(BaseException):
    """the event loop kept waiting after the transport had ended / beyond the wait budget"""


class World(object):
    cur = None

    def __init__(self):
        self.log = []                 # ordered: ('write', sock_id, data) ('recv', sock_id, n) ('close', sock_id) ...
        self.socks = []
        self.selectors = []
        self.clock = 1700000000.0     # time.time() is seconds since the epoch, not since the session started
        self.scripts = {}             # connection index -> Script  (order of successful socket creation)
        self.default_script = None
        self.resolve = None           # callable(host, port) -> list of sockaddr  | raises
        self.n_addrs = 1
        self.fault_hook = None        # callable(op, sock) -> None | raises
        self.urandom = None           # callable(n) -> bytes-like
        self.random = None            # callable() -> value in [0,1)
        self.waits = 0
        self.max_waits = 200
        self.conn_count = 0
        self.pending_mode = False
        self.fd_map = {}
        self.event_index = -1         # maintained by harness: index of the event being handled
        self.sha1_cache = []          # (input items, digest items) for symbolic inputs
        self.zlib = None              # abstract zlib state (C06)
        self.notes = {}
        self.timers = []              # pending virtual-clock timers (threading.Timer model): [due, seq, FakeTimer]
        self.timer_seq = 0

    # ---- helpers ----------------------------------------------------------------------------
    def op(self, name, sock=None):
        """called by every stub operation before it acts; may raise an injected fault"""
        if self.fault_hook is not None:
            self.fault_hook(name, sock)

    def writes(self, sock_id=None):
        return [e[2] for e in self.log if e[0] == 'write' and (sock_id is None or e[1] == sock_id)]


def world():
    return World.cur


class InjectedError(RuntimeError):
    """a non-socket exception raised by a stubbed socket call"""


class SymFaults(object):
    """symbolic fault injection: at every eligible stub operation a solver variable decides
    whether the call fails (and how), until `max_faults` faults have been injected.

    ops: names of eligible operations ('getaddrinfo','socket','connect','sendall','recv','wait',
         'shutdown','close','wrap_socket'); kinds: 'oserror' | 'exception'
    skip: {op: n} -- the first n occurrences of op are not eligible (e.g. the upgrade request)"""

    def __init__(self, ops, kinds=('oserror',), max_faults=1, skip=None, only_sock=None, sticky=()):
        self.sticky = set(sticky)     # ops that keep failing once they failed (a dead socket stays dead)
        self.dead = {}
        self.ops = set(ops)
        self.kinds = list(kinds)
        self.left = max_faults
        self.skip = dict(skip or {})
        self.seen = {}
        self.injected = []       # (op, occurrence, kind)
        self.only_sock = only_sock

    def __call__(self, op, sock):
        if op in self.dead:
            kind = self.dead[op]
            World.cur.log.append(('fault', op, -1, kind))
            if kind == 'oserror':
                raise _socket.error(104, 'injected socket error in %s (socket is dead) {0} {} {x!r} %%s %%(y)d' % op)
            raise InjectedError('injected non-socket exception in %s (socket is dead) {0} {} {x!r} %%s %%(y)d' % op)
        if op not in self.ops or self.left <= 0:
            return
        if self.only_sock is not None and sock is not None and sock.id != self.only_sock:
            return
        n = self.seen.get(op, 0)
        self.seen[op] = n + 1
        if n < self.skip.get(op, 0):
            return
        k = Ctx.cur.choose(1 + len(self.kinds), 'fault')
        if k == 0:
            return
        kind = self.kinds[k - 1]
        self.left -= 1
        self.injected.append((op, n, kind))
        if op in self.sticky:
            self.dead[op] = kind
        World.cur.log.append(('fault', op, n, kind))
        if kind == 'oserror':
            raise _socket.error(104, 'injected socket error in %s {0} {} {x!r} %%s %%(y)d' % op)
        raise InjectedError('injected non-socket exception in %s {0} {} {x!r} %%s %%(y)d' % op)


ENDED = ('eof', 'error', 'exception', 'tls-error')      # ways a transport ends (everything but 'silence')


class Script(object):
    """what the peer of one socket does"""

    def __init__(self, stream, cuts='one', end='eof', silent_waits=0, after_request=True):
        self.stream = stream          # list of items | callable(world, sock) -> list of items
        self.cuts = cuts              # 'one' | 'bytewise' | [sizes] | 'sym'
        self.end = end                # 'eof' | 'error' | 'exception' | 'silence'
        self.pos = 0
        self.items = None
        self.cut_i = 0
        self.silent_waits = silent_waits
        self.eof_delivered = False
        self.phases = []              # callables(world, sock) -> more items, appended when the stream runs dry

    def materialize(self, w, sock):
        if self.items is None:
            s = self.stream
            self.items = list(s(w, sock)) if callable(s) else list(s)

    def remaining(self):
        return len(self.items) - self.pos

    def next_chunk_len(self, maxn):
        rem = self.remaining()
        avail = min(rem, maxn)
        if self.cuts == 'one':
            return avail
        if self.cuts == 'bytewise':
            return min(1, avail)
        if self.cuts == 'sym':
            if avail <= 1:
                return avail
            return 1 + Ctx.cur.choose(avail, 'cut')
        if self.cut_i < len(self.cuts):
            n = self.cuts[self.cut_i]
            self.cut_i += 1
            return min(n, avail)
        return avail


# =============================================================================================
# socket
# =============================================================================================

RESET_SHUTDOWN_FAILS = [True]


class FakeSocket(object):
    _sx_accepts_symbolic = True

    def __init__(self, w, af=None):
        self.w = w
        self.id = len(w.socks)
        w.socks.append(self)
        self.closed = False
        self.close_calls = 0
        self.shutdown_calls = 0
        self.connected = False
        self.script = None
        self.tls = False
        self.addr = None
        self.fd = 100 + self.id
        w.fd_map[self.fd] = self
        self.tls_buf = 0            # bytes already decrypted inside the TLS object (C18 model)
        self.reset = False          # a socket error was reported on recv/sendall: the connection is gone

    # -- plumbing
    def setsockopt(self, *a):
        pass

    def settimeout(self, t):
        self.timeout = t

    def fileno(self):
        return self.fd

    def connect(self, sa):
        self.w.log.append(('connect-attempt', self.id, sa))
        self.w.op('connect', self)
        self.addr = sa
        self.connected = True
        idx = self.w.conn_count
        self.w.conn_count += 1
        self.script = self.w.scripts.get(idx, self.w.default_script)
        self.w.log.append(('connect', self.id, sa))

    def sendall(self, data):
        if isinstance(data, (SymByteArray, SymMemoryView)):
            data = mk_bytes(data._get())
        try:
            self.w.op('sendall', self)
        except BaseException as e:
            if isinstance(e, _socket.error):
                self.reset = True
            self.w.log.append(('write-failed', self.id, data))
            raise
        self.w.log.append(('write', self.id, data))

    send = sendall

    def _script(self):
        s = self.script
        if s is None:
            raise EngineLimit('socket without a script was read')
        s.materialize(self.w, self)
        while s.remaining() == 0 and s.phases:
            more = s.phases.pop(0)(self.w, self)
            if more is None:
                break
            s.items.extend(more)
        return s

    def readable(self):
        s = self._script()
        if s.remaining() > 0:
            return True
        return s.end in ENDED

    def _take(self, n):
        s = self._script()
        if isinstance(n, SymInt):
            n = n.concretize()
        if s.remaining() == 0:
            if s.end == 'error':
                self.reset = True
                raise _socket.error(104, 'Connection reset by peer (injected) {0} {} {x!r} %s %(y)d')
            if s.end == 'tls-error':
                # a TLS-level failure reported by the ssl module (ssl.SSLError is an OSError): e.g. the peer dropped TCP without close_notify
                self.reset = True
                raise _ssl.SSLEOFError(8, 'EOF occurred in violation of protocol (_ssl.c:2427) {0} {} %s')
            if s.end == 'exception':
                raise RuntimeError('injected non-socket exception {0} {} {x!r} %s %(y)d')
            if s.end == 'eof':
                s.eof_delivered = True
                return []
            # recv() on a blocking socket that has nothing to deliver and whose peer stays silent never returns: the caller hangs
            raise LoopBudget('blocking recv() on a silent peer: the socket had not been reported readable; the call never returns')
        k = s.next_chunk_len(n)
        chunk = s.items[s.pos:s.pos + k]
        s.pos += k
        return chunk

    def _recv_op(self):
        if self.closed and getattr(self, 'closed_by_timer', False):
            # the descriptor was closed under the reader (by a timer callback): EBADF, as the OS reports it
            raise _socket.error(9, 'Bad file descriptor')
        try:
            self.w.op('recv', self)
        except _socket.error:
            self.reset = True
            raise

    def recv_into(self, buf, n=0):
        self._recv_op()
        if not n:
            n = len(buf)
        chunk = self._take(n)
        k = len(chunk)
        if isinstance(buf, (SymByteArray,)):
            buf.items[0:k] = chunk
        elif isinstance(buf, SymMemoryView):
            buf[0:k] = chunk
        else:
            if not symdata._concrete(chunk):
                raise EngineLimit('symbolic data received into a native buffer')
            buf[0:k] = bytes(chunk)
        self.w.log.append(('recv', self.id, k))
        return k

    def recv(self, n):
        self._recv_op()
        chunk = self._take(n)
        self.w.log.append(('recv', self.id, len(chunk)))
        return mk_bytes(chunk)

    def shutdown(self, how):
        self.w.op('shutdown', self)
        self.shutdown_calls += 1
        if self.reset and RESET_SHUTDOWN_FAILS[0]:
            # Linux: once a connection has been reset (ECONNRESET / EPIPE reported on recv or send) the socket is no
            # longer connected and shutdown() raises ENOTCONN; the descriptor stays open until close()
            # (observed with real loopback sockets: design_probes/rst_shutdown.py)
            self.w.log.append(('shutdown-enotconn', self.id))
            raise _socket.error(107, 'Transport endpoint is not connected')
        self.w.log.append(('shutdown', self.id))

    def close(self):
        self.w.op('close', self)
        self.close_calls += 1
        self.closed = True
        if getattr(self.w, 'in_timer', False):
            self.closed_by_timer = True
        self.w.log.append(('close', self.id))

    def pending(self):
        if not self.tls:
            raise AttributeError('pending')
        return self.tls_buf

    def __repr__(self):
        return '<FakeSocket %d>' % self.id


class _PlainSocket(FakeSocket):
    """plain TCP socket: has no pending() attribute (hasattr must be False)"""

    def __getattribute__(self, name):
        if name == 'pending' and not object.__getattribute__(self, 'tls'):
            raise AttributeError(name)
        return object.__getattribute__(self, name)


class FakeSocketModule(object):
    _sx_accepts_symbolic = True
    error = _socket.error
    timeout = _socket.timeout
    gaierror = _socket.gaierror
    herror = _socket.herror
    AF_UNSPEC = _socket.AF_UNSPEC
    AF_INET = _socket.AF_INET
    SOCK_STREAM = _socket.SOCK_STREAM
    IPPROTO_TCP = _socket.IPPROTO_TCP
    TCP_NODELAY = _socket.TCP_NODELAY
    SHUT_RDWR = _socket.SHUT_RDWR
    SHUT_RD = _socket.SHUT_RD
    SHUT_WR = _socket.SHUT_WR

    @staticmethod
    def getaddrinfo(host, port, family=0, type=0, proto=0, flags=0):
        w = World.cur
        w.op('getaddrinfo', None)
        w.log.append(('resolve', host, port))
        if w.resolve is not None:
            addrs = w.resolve(host, port)
        else:
            addrs = [('10.0.0.%d' % (i + 1), port) for i in range(w.n_addrs)]
        return [(_socket.AF_INET, _socket.SOCK_STREAM, 6, '', sa) for sa in addrs]

    @staticmethod
    def socket(af=None, socktype=None, proto=None):
        w = World.cur
        w.log.append(('socket-attempt',))
        w.op('socket', None)
        return (getattr(w, 'sock_class', None) or _PlainSocket)(w, af)

    @staticmethod
    def create_connection(*a, **k):
        raise EngineLimit('socket.create_connection not modelled')


class FakeSSLContext(object):
    def __init__(self, protocol=None):
        self.protocol = protocol

    def wrap_socket(self, sock, server_hostname=None, **k):
        w = World.cur
        w.op('wrap_socket', sock)
        sock.tls = True
        sock.server_hostname = server_hostname
        w.log.append(('tls', sock.id, server_hostname))
        return sock


class FakeSSLModule(object):
    PROTOCOL_TLS = getattr(_ssl, 'PROTOCOL_TLS', 2)
    PROTOCOL_SSLv23 = getattr(_ssl, 'PROTOCOL_SSLv23', 2)
    HAS_SNI = True
    SSLContext = FakeSSLContext
    SSLError = _ssl.SSLError
    CERT_NONE = _ssl.CERT_NONE

    @staticmethod
    def wrap_socket(sock, **k):
        return FakeSSLContext().wrap_socket(sock)


# =============================================================================================
# select
# =============================================================================================

class FakePoll(object):
    def __init__(self):
        self.fds = []
        World.cur.selectors.append(self)
        self.closed = False

    def register(self, fd, events=0):
        self.fds.append(fd)

    def unregister(self, fd):
        self.fds.remove(fd)

    def poll(self, timeout_ms=None):
        w = World.cur
        w.wait_calls = getattr(w, 'wait_calls', 0) + 1
        if w.wait_calls > 4 * w.max_waits + 50:
            raise LoopBudget('more than %d selector wait calls' % (4 * w.max_waits + 50))
        w.op('wait', None)
        socks = [w.fd_map[fd] for fd in self.fds]
        return wait_readable(w, socks, timeout_ms, scale=1000.0)

    def close(self):
        self.closed = True


class FakeEpoll(FakePoll):
    """select.epoll as documented (epoll(7)): level-triggered like poll() unless the descriptor was registered with EPOLLET;
    then readiness is reported ONCE per arrival (edge) - data left unread after that report produces no further event.
    In the scripted transport everything the peer sends is one arrival (new arrivals: bytes added by a later script phase,
    and the end of the stream, which is an arrival of its own).  Timeout in seconds."""

    def __init__(self, *a, **k):
        FakePoll.__init__(self)
        self.et = {}

    def register(self, fd, eventmask=1):
        self.fds.append(fd)
        self.et[fd] = bool(eventmask & EPOLLET)

    def modify(self, fd, eventmask):
        self.et[fd] = bool(eventmask & EPOLLET)

    def poll(self, timeout=None, maxevents=-1):
        w = World.cur
        w.wait_calls = getattr(w, 'wait_calls', 0) + 1
        if w.wait_calls > 4 * w.max_waits + 50:
            raise LoopBudget('more than %d selector wait calls' % (4 * w.max_waits + 50))
        w.op('wait', None)
        socks = [w.fd_map[fd] for fd in self.fds]
        if timeout is not None and timeout < 0:
            timeout = None
        return wait_readable(w, socks, timeout, scale=1.0, edge={w.fd_map[fd].id for fd in self.fds if self.et.get(fd)})


EPOLLET = 1 << 31


def _edge_ready(s):
    """edge-triggered readiness of a scripted socket: an arrival not yet reported"""
    sc = s._script()
    seen = getattr(s, 'edge_seen', (-1, False))
    now = (len(sc.items), sc.remaining() == 0 and sc.end in ENDED)
    # a new arrival: more bytes exist than at the last report, or the stream end became visible
    if now[0] > seen[0] or (now[1] and not seen[1]):
        return True
    return False


def wait_readable(w, socks, timeout, scale=1.0, edge=()):
    """the one place where virtual time advances"""
    w.waits += 1
    if w.waits > w.max_waits:
        raise LoopBudget('more than %d selector waits' % w.max_waits)
    ready = [s for s in socks if s.readable() and (s.id not in edge or _edge_ready(s))]
    for s in ready:
        if s.id in edge:
            sc = s._script()
            s.edge_seen = (len(sc.items), sc.remaining() == 0 and sc.end in ENDED)
    adv = getattr(w, 'advance', None)
    if adv is not None:
        return adv(w, socks, ready, timeout, scale)
    if ready:
        # (arrival_gap: the peer trickles - every read is preceded by that much virtual time, never more than the wait allows)
        gap = getattr(w, 'arrival_gap', 0)
        if gap:
            w.clock = w.clock + (min(gap, timeout / scale) if timeout is not None else gap)
        w.log.append(('wait', 'readable'))
        return [(s.fd, _select.POLLIN) for s in ready]
    # nothing to read: the full timeout elapses
    s0 = socks[0]._script() if socks else None
    if s0 is not None and s0.end == 'silence':
        if s0.silent_waits <= 0:
            s0.end = 'eof'
            return [(socks[0].fd, _select.POLLIN)]
        s0.silent_waits -= 1
    if timeout is None:
        if w.timers:
            # only a timer can end this wait
            if fire_timers(w, None):
                hit = [s for s in socks if s.closed or s.readable()]
                if hit:
                    w.log.append(('wait', 'readable-after-timer'))
                    return [(s.fd, _select.POLLNVAL if s.closed else _select.POLLIN) for s in hit]
        raise LoopBudget('infinite wait on a silent peer')
    target = w.clock + (timeout / scale)
    if w.timers:
        while fire_timers(w, target):
            hit = [s for s in socks if s.closed or s.readable()]
            if hit:
                w.log.append(('wait', 'readable-after-timer'))
                return [(s.fd, _select.POLLNVAL if s.closed else _select.POLLIN) for s in hit]
    w.clock = target
    w.log.append(('wait', 'timeout'))
    return []


def fire_timers(w, target):
    """virtual-clock model of threading.Timer: the earliest pending timer whose due time is not after `target` (None: any)
    fires - the clock moves to its due time and its callback runs to completion, as one legal schedule of the timer thread
    (the callback runs while the event loop sleeps in its selector wait).  Returns True if one fired."""
    if not w.timers:
        return False
    w.timers.sort(key=lambda t: (t[0], t[1]))
    due, _seq, tm = w.timers[0]
    if target is not None and due > target:
        return False
    w.timers.pop(0)
    if due > w.clock:
        w.clock = due
    w.log.append(('timer-fired', tm.interval))
    w.in_timer = True
    try:
        tm.function(*tm.args, **tm.kwargs)
    except Exception as e:            # an exception in a timer thread is printed by threading.excepthook, it reaches nobody
        w.log.append(('timer-exception', repr(e)))
    finally:
        w.in_timer = False
        tm.finished.set()
    return True


class FakeSelectModule(object):
    POLLIN = _select.POLLIN
    POLLPRI = _select.POLLPRI
    POLLERR = _select.POLLERR
    POLLHUP = _select.POLLHUP
    error = _select.error

    @staticmethod
    def poll():
        return FakePoll()

    EPOLLIN, EPOLLPRI, EPOLLERR, EPOLLHUP, EPOLLET = 1, 2, 8, 16, 1 << 31

    @staticmethod
    def epoll(*a, **k):
        return FakeEpoll()

    @staticmethod
    def select(r, wl, x, timeout=None):
        w = World.cur
        w.op('wait', None)
        socks = [w.fd_map[fd] for fd in r]
        ev = wait_readable(w, socks, timeout)
        return ([fd for fd, _ in ev], [], [])


# =============================================================================================
# time / random / urandom / hashing / base64
# =============================================================================================

class FakeTimeModule(object):
    @staticmethod
    def time():
        return World.cur.clock

    @staticmethod
    def sleep(t):
        w = World.cur
        target = w.clock + t
        while w.timers and fire_timers(w, target):
            pass
        w.clock = target

    monotonic = time


class FakeTimer(object):
    """threading.Timer on the VIRTUAL clock (no OS thread): start() registers the callback to run when virtual time reaches
    now + interval; virtual time advances only inside selector waits / time.sleep (see fire_timers)."""
    _sx_accepts_symbolic = True

    def __init__(self, interval, function, args=None, kwargs=None):
        self.interval = interval
        self.function = function
        self.args = args if args is not None else []
        self.kwargs = kwargs if kwargs is not None else {}
        self.finished = _threading.Event()
        self.daemon = False
        self.name = 'Timer'
        self._started = False

    def start(self):
        if self._started:
            raise RuntimeError('threads can only be started once')
        self._started = True
        w = World.cur
        if self.finished.is_set():
            return
        w.timer_seq += 1
        w.timers.append([w.clock + self.interval, w.timer_seq, self])
        w.log.append(('timer-armed', self.interval))

    def cancel(self):
        self.finished.set()
        w = World.cur
        if w is not None:
            w.timers[:] = [t for t in w.timers if t[2] is not self]

    def is_alive(self):
        w = World.cur
        return self._started and w is not None and any(t[2] is self for t in w.timers)

    isAlive = is_alive

    def setDaemon(self, d):
        self.daemon = d

    def join(self, timeout=None):
        pass


class FakeThreadingModule(object):
    """the real threading module with Timer on the virtual clock"""
    Timer = FakeTimer

    def __getattr__(self, name):
        return getattr(_threading, name)


def fake_urandom(n):
    w = World.cur
    if w.urandom is not None:
        return w.urandom(n)
    # deterministic, non-trivial concrete bytes
    c = w.notes.setdefault('urandom_calls', 0)
    w.notes['urandom_calls'] = c + 1
    return bytes(((17 * (c + 1) + 29 * i + 0x5a) & 0xFF) for i in range(n))


class FakeOsModule(object):
    """lomond uses os.urandom and os.environ only"""
    urandom = staticmethod(fake_urandom)
    environ = {}

    def __getattr__(self, name):
        return getattr(_os, name)


def fake_random():
    w = World.cur
    if w.random is not None:
        return w.random()
    return 0.5


_B64 = b'ABCDEFGHIJKLMNOPQRSTUVWXYZabcdefghijklmnopqrstuvwxyz0123456789+/'


def sx_b64encode(data, altchars=None):
    if not has_sym(data) and not isinstance(data, SymSeq):
        return _base64.b64encode(data, altchars)
    it = items_of(data)
    if symdata._concrete(it):
        return _base64.b64encode(bytes(it), altchars)
    out = []
    for i in range(0, len(it), 3):
        grp = it[i:i + 3]
        pad = 3 - len(grp)
        v = None
        for b in grp + [0] * pad:
            b = SymInt.lift(b)
            e = b.at(8)
            v = e if v is None else z3.Concat(v, e)
        for k in range(4 - pad):
            six = SymInt(z3.simplify(z3.Extract(23 - 6 * k, 18 - 6 * k, v)), 6)
            out.append(symdata.ite_table(list(_B64), six))
        out.extend([61] * pad)
    out = [SymInt(o.at(8), 8) if isinstance(o, SymInt) else o for o in out]
    return mk_bytes(out)


class _SymSha1(object):
    def __init__(self, data=b''):
        self.items = items_of(data)

    def update(self, data):
        self.items.extend(items_of(data))

    def digest(self):
        if symdata._concrete(self.items):
            return _hashlib.sha1(bytes(self.items)).digest()
        w = World.cur
        c = Ctx.cur
        # uninterpreted: one fresh 20-byte vector per distinct input term (congruence only)
        for inp, dig in w.sha1_cache:
            if len(inp) == len(self.items) and all(
                    (isinstance(a, int) and isinstance(b, int) and a == b) or
                    (isinstance(a, SymInt) and isinstance(b, SymInt) and a.e.eq(b.e))
                    for a, b in zip(inp, self.items)):
                return mk_bytes(dig)
        k = len(w.sha1_cache)
        dig = [SymInt(c.fresh_bv('sha1_%d_%d' % (k, i), 8), 8) for i in range(20)]
        w.sha1_cache.append((list(self.items), dig))
        return mk_bytes(dig)

    def hexdigest(self):
        raise EngineLimit('sha1.hexdigest on symbolic input')


def sx_sha1(data=b''):
    if isinstance(data, SymSeq):
        return _SymSha1(data)
    return _hashlib.sha1(data)


# =============================================================================================
# abstract zlib: an executable streaming codec that makes context synchronisation explicit (C06)
# =============================================================================================
ZMAGIC = 0xD7
ZTAIL = [0x00, 0x00, 0xFF, 0xFF]


class ZError(_zlib.error):
    pass


def _wb(x):
    """window bits argument (-w): magnitude as int/SymInt"""
    if isinstance(x, symdata.SymNegInt):
        return x.mag
    if isinstance(x, int):
        return -x if x < 0 else x
    raise EngineLimit('positive/unknown wbits for raw deflate: %r' % (x,))


class AbstractCompress(object):
    """compress(x)+flush(SYNC) = [MAGIC, wbits, gen, seq, len_hi, len_lo] ++ x ++ 00 00 ff ff
    gen identifies this compressor object, seq counts the messages it has seen (its history)."""
    _sx_accepts_symbolic = True
    counter = [0]

    def __init__(self, level, method, wbits, *a):
        w = World.cur
        st = w.notes.setdefault('zlib', dict(ngen=0, compress_calls=[]))
        st['ngen'] += 1
        self.gen = st['ngen']
        self.seq = 0
        self.wbits = _wb(wbits)
        self.pending = None
        st.setdefault('compressors', []).append(self)

    def compress(self, data):
        """deflate buffers: the input enters the history NOW (seq advances), the bytes come out with the next flush() - of THIS
        object (real zlib returns b'' or a few bytes from compress() for inputs below its internal buffer size)"""
        it = items_of(data)
        World.cur.notes['zlib']['compress_calls'].append((self.gen, self.seq, list(it)))
        if self.pending is None:
            self.pending = (self.seq, list(it))
        else:
            self.pending = (self.pending[0], self.pending[1] + list(it))
        self.seq += 1
        _sched_point('zlib-compress-return')
        return b''

    def flush(self, mode=None):
        if self.pending is None:
            # nothing buffered: an empty stored block
            return bytes(ZTAIL)
        seq, it = self.pending
        self.pending = None
        n = len(it)
        wb = self.wbits
        if isinstance(wb, SymInt):
            wb = SymInt(wb.at(8), 8) if wb.w <= 8 else SymInt(z3.Extract(7, 0, wb.e), 8)
        if n >= 2 and symdata._concrete(it) and len(set(it)) == 1:
            # a run: "compressible" payload, the output is shorter than the input (RLE form)
            out = [ZMAGIC, wb, self.gen & 0xFF, seq & 0xFF, (n >> 8) | 0x80, n & 0xFF, it[0]]
        else:
            out = [ZMAGIC, wb, self.gen & 0xFF, seq & 0xFF, n >> 8, n & 0xFF] + it
        return mk_bytes(out + ZTAIL)


def _sched_point(tag):
    """a call into zlib is a place where another thread can run (the C code releases the GIL): a preemption point for the
    deterministic scheduler of the concurrency checks, when one is active"""
    w = World.cur
    sc = getattr(w, 'sched', None) if w is not None else None
    if sc is not None:
        me = getattr(_threading.current_thread(), 'sched_name', None)
        if me is not None:
            sc.point(me, tag)


class AbstractDecompress(object):
    """accepts, in order, exactly what ONE compressor produced since this object was created -- or any
    message with seq == 0 (a fresh compressor needs no history).  Anything else: zlib.error."""
    _sx_accepts_symbolic = True

    def __init__(self, wbits, *a):
        self.wbits = _wb(wbits)
        self.buf = []
        self.state = None          # (gen, next_seq) of the stream this object is in sync with
        st = World.cur.notes.setdefault('zlib', dict(ngen=0, compress_calls=[]))
        st.setdefault('decompressors', []).append(self)

    def decompress(self, data, *a):
        self.buf.extend(items_of(data))
        out = []
        while True:
            b = self.buf
            if len(b) >= 4 and symdata._concrete(b[:4]) and list(b[:4]) == ZTAIL:
                del b[:4]              # an empty stored block (a flush with nothing buffered): no output
                continue
            if len(b) < 6:
                break
            if not symdata.tb(symdata.eq_items([b[0]], [ZMAGIC])):
                raise ZError('Error -3 while decompressing data: invalid block type (abstract codec)')
            n = b[4] * 256 + b[5] if isinstance(b[4], int) and isinstance(b[5], int) else None
            if n is None:
                n = (SymInt.lift(b[4]) << 8 | b[5]).concretize()
            rle = bool(n & 0x8000)
            n &= 0x7FFF
            run = n
            if rle:
                n = 1
            if len(b) < 6 + n + 4:
                break
            w_msg, gen, seq = b[1], b[2], b[3]
            if not symdata.tb(symdata.eq_items(b[6 + n:6 + n + 4], ZTAIL)):
                raise ZError('Error -3 while decompressing data: invalid stored block lengths (abstract codec)')
            # window: zlib cannot inflate a stream produced with a larger window
            wm = SymInt.lift(w_msg) if not isinstance(w_msg, int) else w_msg
            wd = self.wbits
            if bool(wm > (wd if not (isinstance(wd, int) and wd == 8) else 9)):
                raise ZError('Error -3 while decompressing data: invalid window size (abstract codec)')
            seq_c = seq if isinstance(seq, int) else seq.concretize()
            gen_c = gen if isinstance(gen, int) else gen.concretize()
            if seq_c != 0 and self.state != (gen_c, seq_c):
                raise ZError('Error -3 while decompressing data: invalid distance too far back (abstract codec: context out of sync)')
            self.state = (gen_c, seq_c + 1)
            out.extend(b[6:6 + n] * (run if rle else 1))
            del b[:6 + n + 4]
        return mk_bytes(out)


class FakeZlibModule(object):
    _sx_accepts_symbolic = True
    Z_DEFAULT_COMPRESSION = _zlib.Z_DEFAULT_COMPRESSION
    DEFLATED = _zlib.DEFLATED
    Z_SYNC_FLUSH = _zlib.Z_SYNC_FLUSH
    MAX_WBITS = _zlib.MAX_WBITS
    error = _zlib.error
    compressobj = AbstractCompress
    decompressobj = AbstractDecompress


class FakeMathModule(object):
    """math.ceil on a symbolic real (idealised): -floor(-x) via z3 ToInt"""

    @staticmethod
    def ceil(x):
        if isinstance(x, SymReal):
            return SymReal(z3.ToReal(-z3.ToInt(-x.e)))
        import math
        return math.ceil(x)

    def __getattr__(self, name):
        import math
        return getattr(math, name)


def install():
    """register identity replacements (import statements in lomond then bind the stubs)"""
    R = instrument.register_replacement
    R(_socket, FakeSocketModule)
    R(_ssl, FakeSSLModule)
    R(_select, FakeSelectModule)
    R(_time, FakeTimeModule)
    R(_os, FakeOsModule())
    R(_base64.b64encode, sx_b64encode)
    R(_base64.standard_b64encode, sx_b64encode)
    R(_hashlib.sha1, sx_sha1)
    R(_random.random, fake_random)
    import math as _math
    R(_math, FakeMathModule())
    R(_zlib, FakeZlibModule)
    R(_threading, FakeThreadingModule())
    R(_threading.Timer, FakeTimer)
    instrument.install()
    import logging
    logging.disable(logging.CRITICAL)


class _RealCompress(object):
    """the real zlib compressor with the scheduler's preemption point on return from compress() (as in the abstract codec)"""

    def __init__(self, obj):
        self._obj = obj

    def compress(self, data):
        out = self._obj.compress(data)
        _sched_point('zlib-compress-return')
        return out

    def flush(self, *a):
        return self._obj.flush(*a)

    def __getattr__(self, name):
        return getattr(self._obj, name)


class RecordingZlibModule(object):
    """replay mode: the REAL zlib, with the window-bits arguments of every (de)compressobj recorded so that the
    reference peer can check the API use (the window a deflater was created with is not observable otherwise)"""
    Z_DEFAULT_COMPRESSION = _zlib.Z_DEFAULT_COMPRESSION
    DEFLATED = _zlib.DEFLATED
    Z_SYNC_FLUSH = _zlib.Z_SYNC_FLUSH
    MAX_WBITS = _zlib.MAX_WBITS
    error = _zlib.error

    @staticmethod
    def compressobj(*a, **k):
        w = World.cur
        if w is not None:
            w.notes.setdefault('zlib_real', dict(compress_wbits=[], decompress_wbits=[]))['compress_wbits'].append(
                a[2] if len(a) > 2 else k.get('wbits', 15))
        return _RealCompress(_zlib.compressobj(*a, **k))

    @staticmethod
    def decompressobj(*a, **k):
        w = World.cur
        if w is not None:
            w.notes.setdefault('zlib_real', dict(compress_wbits=[], decompress_wbits=[]))['decompress_wbits'].append(
                a[0] if a else k.get('wbits', 15))
        return _zlib.decompressobj(*a, **k)

    def __getattr__(self, name):
        return getattr(_zlib, name)


PRISTINE = False


def install_pristine():
    """replay mode: the real, un-instrumented package with only the environment replaced"""
    import sys
    global PRISTINE
    PRISTINE = True
    src = os_path_parent(instrument.ROOT)
    if src not in sys.path:
        sys.path.insert(0, src)
    import logging
    logging.disable(logging.CRITICAL)
    import lomond
    import lomond.session, lomond.selectors, lomond.websocket, lomond.frame, lomond.mask, lomond.persist
    assert os_path_parent(lomond.__file__).rstrip('/') == instrument.ROOT.rstrip('/'), lomond.__file__
    lomond.session.socket = FakeSocketModule
    lomond.session.ssl = FakeSSLModule
    lomond.session.time = FakeTimeModule
    lomond.session.HAS_SNI = True
    lomond.selectors.select = FakeSelectModule
    lomond.websocket.os = FakeOsModule()
    lomond.frame.make_masking_key = lambda: fake_urandom(4)
    lomond.mask.make_masking_key = lambda: fake_urandom(4)
    lomond.persist.random = fake_random
    import lomond.compression
    lomond.compression.zlib = RecordingZlibModule()
    # threading.Timer on the virtual clock, wherever a lomond module binds it
    ftm = FakeThreadingModule()
    for mod in list(sys.modules.values()):
        if getattr(mod, '__name__', '').split('.')[0] == 'lomond':
            if getattr(mod, 'threading', None) is _threading:
                mod.threading = ftm
            if getattr(mod, 'Timer', None) is _threading.Timer:
                mod.Timer = FakeTimer


def os_path_parent(p):
    return _os.path.dirname(_os.path.abspath(p))
