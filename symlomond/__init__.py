"""symlomond: symbolic execution of the real lomond modules (AST-instrumented shadow import + z3)."""
