"""
symlomond.runner -- runs the registered harnesses of one property, turns solver verdicts into
exit codes, replays counterexamples on the pristine code, writes the evidence file.

exit 0  every path within the bound explored, every obligation unsat (KNOWN-FINDING lines allowed)
exit 1  VIOLATION property=<id> replay=<path>  (sat model reproduced on pristine /repo code, not a known finding)
exit 3  inconclusive / harness error (unknown, engine limit, model that does not replay, self-test mismatch)
"""
import hashlib
import importlib
import json
import os
import subprocess
import sys
import time

VERIF = os.path.dirname(os.path.dirname(os.path.abspath(__file__)))
PY = sys.executable


class Spec(object):
    """one exploration: harness function + parameters"""

    def __init__(self, name, module, func, params, what, logic='QF_BV', nontrivial=None, budget_s=None,
                 expect_classes=(), xval=True, chunk=120):
        self.name = name
        self.module = module            # module path under checks/, e.g. 'checks.recv'
        self.func = func                # function name: run(c, P) -> dict(cls=..., sample=..., observe=...)
        self.params = params            # JSON-able dict
        self.what = what                # one line: what is symbolic, what is asserted
        self.logic = logic
        self.nontrivial = nontrivial    # predicate on class label -> counts as non-trivial
        self.budget_s = budget_s
        self.expect_classes = expect_classes   # reachability witnesses: classes that must be reached
        self.xval = xval
        self.chunk = chunk


def load_func(module, func):
    if VERIF not in sys.path:
        sys.path.insert(0, VERIF)
    m = importlib.import_module(module)
    return getattr(m, func)


def load_known():
    p = os.path.join(VERIF, 'known_findings.json')
    if not os.path.exists(p):
        return []
    with open(p) as fh:
        return json.load(fh).get('findings', [])


def match_known(prop, sig, known):
    for k in known:
        if k.get('property') == prop and k.get('status', 'open') == 'open':
            for s in k.get('signatures', []):
                if s == sig or (s.endswith('*') and sig.startswith(s[:-1])):
                    return k
    return None


def replay_file(prop, spec, model, what, sig):
    d = os.path.join(VERIF, 'replays', prop)
    os.makedirs(d, exist_ok=True)
    body = dict(property=prop, spec=spec.name, module=spec.module, func=spec.func, params=spec.params,
                model=model, what=what, sig=sig)
    h = hashlib.sha1(json.dumps(body, sort_keys=True, default=str).encode()).hexdigest()[:12]
    path = os.path.join(d, '%s-%s.json' % (spec.name, h))
    with open(path, 'w') as fh:
        json.dump(body, fh, indent=1, default=str)
    return path


def run_replay(path, timeout=300):
    """-> (reproduced: bool|None, output)"""
    env = dict(os.environ)
    env['PYTHONPATH'] = VERIF
    p = subprocess.run([PY, '-m', 'symlomond.replay', path], cwd=VERIF, env=env,
                       stdout=subprocess.PIPE, stderr=subprocess.STDOUT, timeout=timeout)
    out = p.stdout.decode('utf-8', 'replace')
    if p.returncode == 1:
        return True, out
    if p.returncode == 0:
        return False, out
    return None, out


def run_xval(prop, spec, samples, timeout=600):
    """replay sampled path models on pristine code; compare the observable -> (n_ok, mismatches)"""
    if not samples:
        return 0, []
    d = os.path.join(VERIF, '.work')
    os.makedirs(d, exist_ok=True)
    path = os.path.join(d, 'xval-%s-%s-%d.json' % (prop, spec.name, os.getpid()))
    with open(path, 'w') as fh:
        json.dump(dict(property=prop, spec=spec.name, module=spec.module, func=spec.func, params=spec.params,
                       samples=samples), fh, default=str)
    env = dict(os.environ)
    env['PYTHONPATH'] = VERIF
    p = subprocess.run([PY, '-m', 'symlomond.replay', '--xval', path], cwd=VERIF, env=env,
                       stdout=subprocess.PIPE, stderr=subprocess.STDOUT, timeout=timeout)
    out = p.stdout.decode('utf-8', 'replace')
    os.unlink(path)
    try:
        last = [l for l in out.splitlines() if l.startswith('XVAL ')][-1]
        r = json.loads(last[5:])
        return r['ok'], r['mismatches']
    except Exception:
        return 0, [dict(error='xval subprocess failed', output=out[-2000:])]


def run_property(prop, tier, specs, level, title, assumptions, functions_hint=(), extra_cov=None,
                 pre=None):
    """specs: list of Spec for this tier.  pre: optional callable -> dict(obligations, discharged, ...)
    for closed (proof-style) obligations run before the explorations."""
    from . import engine, instrument
    t0 = time.time()
    seed = int(os.environ.get('VERIF_SEED', '0') or 0)
    known = load_known()
    tot = dict(paths=0, decisions=0, queries=0, prove=0, solver=0.0, aborted=0)
    classes = {}
    samples = []
    per_spec = []
    viols = {}         # sig -> (what, model, scenario, spec)
    limits = []
    xval_ok = 0
    xval_bad = []
    missing_witness = []
    pre_info = None
    if pre is not None:
        pre_info = pre()
        if pre_info.get('failed'):
            for f in pre_info['failed']:
                viols.setdefault(f['sig'], (f['what'], f.get('model', {}), None, f.get('spec')))
        limits.extend(pre_info.get('limits', []))
    engine.CONTINUE_SIGS = set(sg for k in known if k.get('property') == prop and k.get('status', 'open') == 'open'
                               for sg in k.get('signatures', []))
    only = os.environ.get('VERIF_ONLY_SPEC')
    if only:
        specs = [s_ for s_ in specs if s_.name in only.split(',')]
    dbg_budget = os.environ.get('VERIF_BUDGET_S')
    for spec in specs:
        if dbg_budget:
            spec.budget_s = float(dbg_budget)
        engine.LOGIC = spec.logic
        fn = load_func(spec.module, spec.func)
        P = spec.params

        def run(c, fn=fn, P=P):
            return fn(c, P)
        engine.XVAL_STRIDE = int(os.environ.get('VERIF_XVAL_STRIDE', '0') or 0) or (spec.params.get('xval_stride', 97))
        engine.XVAL_SEED = seed
        r = engine.explore_parallel(run, budget_s=spec.budget_s, chunk_paths=spec.chunk)
        tot['paths'] += r.paths
        tot['decisions'] += r.decisions
        tot['queries'] += r.queries
        tot['prove'] += r.prove_queries
        tot['solver'] += r.t_solver
        tot['aborted'] += r.aborted
        for k, v in r.classes.items():
            classes[k] = classes.get(k, 0) + v
        for s in r.samples[:3]:
            samples.append(dict(spec=spec.name, case=s))
        for what, model, scen, sig in r.violations:
            viols.setdefault(sig, (what, model, scen, spec))
        for l in r.limits:
            limits.append('%s: %s' % (spec.name, l))
        miss = [k for k in spec.expect_classes if not r.classes.get(k)]
        if miss and not r.violations and not r.limits:
            missing_witness.append('%s: never reached %s' % (spec.name, miss))
        nx = 0
        if spec.xval and r.xval and not r.limits:
            ok, bad = run_xval(prop, spec, r.xval[:60])
            nx = ok
            xval_ok += ok
            xval_bad.extend(bad)
        per_spec.append(dict(spec=spec.name, what=spec.what, params=spec.params, paths=r.paths,
                             aborted_infeasible=r.aborted, branch_decisions=r.decisions,
                             solver_queries=r.queries, obligations=r.prove_queries,
                             fresh_solver_fallbacks=getattr(r, 'fallbacks', 0),
                             solver_s=round(r.t_solver, 2), wall_s=round(r.wall, 2),
                             violations=len(r.violations), xval_replayed=nx))
    # ---- verdict
    rc = 0
    out_lines = []
    n_new = 0
    n_known = 0
    for sig, (what, model, scen, spec) in sorted(viols.items()):
        k = match_known(prop, sig, known)
        if spec is None:
            # closed obligation (no path model): reported directly
            if k is not None:
                out_lines.append('KNOWN-FINDING: property=%s %s' % (prop, k['title']))
                n_known += 1
            else:
                path = replay_file(prop, Spec('proof', '', '', {}, ''), model, what, sig)
                out_lines.append('VIOLATION property=%s replay=%s' % (prop, path))
                out_lines.append('  ' + what)
                n_new += 1
                rc = 1
            continue
        path = replay_file(prop, spec, model, what, sig)
        ok, out = run_replay(path)
        if ok is True:
            if k is not None:
                out_lines.append('KNOWN-FINDING: property=%s %s [%s]' % (prop, k['title'], sig))
                n_known += 1
            else:
                out_lines.append('VIOLATION property=%s replay=%s' % (prop, path))
                out_lines.append('  ' + what)
                out_lines.append('  scenario: %s' % (scen,))
                n_new += 1
                rc = 1
        else:
            limits.append('counterexample for "%s" did not reproduce on pristine code (shim/model error?): %s'
                          % (what, out[-600:]))
    if xval_bad:
        limits.append('cross-validation mismatch between symbolic run and pristine concrete run: %s'
                      % json.dumps([dict(symbolic=b.get('symbolic'), pristine=b.get('pristine'),
                                         model=dict(list((b.get('model') or {}).items())[:12])) for b in xval_bad[:2]],
                                   default=str)[:1500])
    if missing_witness:
        limits.append('vacuity guard: ' + '; '.join(missing_witness))
    if limits and rc == 0:
        rc = 3
    wall = time.time() - t0
    nontriv = [k for k in classes if not k.startswith('_')]
    cov = dict(
        states=max(tot['paths'], 1) if tot['paths'] else (pre_info or {}).get('discharged', 0),
        transitions=max(tot['decisions'], 1),
        traces_validated_against_impl=xval_ok,
        samples=samples[:8] or [dict(note='closed obligations only', info=(pre_info or {}).get('samples', [])[:3])],
        evaluations=tot['paths'] + (pre_info or {}).get('obligations', 0),
        distinct_nontrivial=len(nontriv),
        rule='one evaluation = one feasible path of the real (instrumented) code, found by z3-decided DFS; '
             'distinct_nontrivial = number of distinct path-class labels reached (labels name the protocol '
             'situation the path exercises, e.g. "control-between-fragments", "viol:masked frame")',
        exhaustive=not limits,
        paths_explored=tot['paths'],
        infeasible_prefixes_pruned=tot['aborted'],
        solver_queries=tot['queries'],
        obligations_discharged=tot['prove'] + (pre_info or {}).get('discharged', 0),
        monitor_evaluations=tot['paths'],
        obligations_note='obligations_discharged = solver-discharged term obligations (payload/term equalities, timing formulas); the structural rules of each '
                         'oracle/monitor are evaluated once per explored path (monitor_evaluations), their truth being fixed by the z3-decided path condition',
        solver_seconds=round(tot['solver'], 2),
        path_classes=dict(sorted(classes.items())),
        explorations=per_spec,
        source_digest=instrument.source_digest(),
        functions_encoded=list(functions_hint),
        known_findings_hit=n_known,
        inconclusive=limits[:10],
        engine='symlomond (AST-instrumented shadow import of /repo/lomond + z3 %s, logic per exploration)' % _z3v(),
    )
    if pre_info:
        cov['closed_obligations'] = {k: v for k, v in pre_info.items() if k not in ('failed',)}
    if extra_cov:
        cov.update(extra_cov)
    if level == 'proof':
        cov['obligations'] = cov['obligations_discharged'] + len(viols)
        cov['discharged'] = cov['obligations_discharged']
        cov['checker_cmd'] = './vcheck %s --tier %s' % (prop, tier)
        cov['trusted_base'] = ['z3', 'symlomond shims/models (differential-tested by selftest)', 'CPython']
    ev = dict(property_id=prop, tier=tier, seed=seed, level=level, coverage=cov,
              assumptions=list(assumptions), wall_s=round(wall, 2), violations=n_new)
    os.makedirs(os.path.join(VERIF, 'evidence'), exist_ok=True)
    with open(os.path.join(VERIF, 'evidence', '%s.json' % prop), 'w') as fh:
        json.dump(ev, fh, indent=1, default=str)
    for l in out_lines:
        print(l)
    print('%s %s tier=%s paths=%d obligations=%d queries=%d solver=%.1fs wall=%.1fs xval=%d rc=%d'
          % (prop, title, tier, tot['paths'], cov['obligations_discharged'], tot['queries'], tot['solver'],
             wall, xval_ok, rc))
    if limits:
        print('INCONCLUSIVE (exit 3):')
        for l in limits[:8]:
            print('  - ' + l[:1200])
    return rc


def _z3v():
    import z3
    return z3.get_version_string()
