"""
symlomond.hconn -- the shared connection harness (H-conn): drives the real
WebSocket.connect() -> WebsocketSession.run() -> feed -> stream -> parser -> Message.build
stack of the instrumented package against the stub environment, and records what the
application can observe: events (with symbolic payload terms) and the ordered I/O log.
"""
import z3

from . import env, engine, symdata, refmodel
from .engine import Ctx, SymInt, SymBool, EngineLimit, PathAbort, Violation
from .env import World, Script, LoopBudget
from .symdata import SymSeq, SymStr, SymBytes, mk_bytes, items_of, eq_items, utf8_valid_term

MSG_EVENTS = ('text', 'binary', 'ping', 'pong', 'closing', 'closed')


class Abandon(BaseException):
    """raised by an application callback to stop iterating"""


class Rec(object):
    def __init__(self):
        self.events = []
        self.exc = None            # exception that escaped next()
        self.budget = None         # LoopBudget message if the loop did not terminate
        self.stopped = False       # StopIteration reached
        self.app_errors = []       # (event index, call, exception) for application sends

    def names(self):
        return [e.name for e in self.events]


def request_key(w, sock):
    """Sec-WebSocket-Key value (items) of the upgrade request the client wrote on `sock`."""
    for e in w.log:
        if e[0] == 'write' and e[1] == sock.id:
            data = e[2]
            it = items_of(data)
            marker = list(b'Sec-WebSocket-Key: ')
            for i in range(len(it) - len(marker)):
                if it[i:i + len(marker)] == marker:
                    j = i + len(marker)
                    k = j
                    while k < len(it) and not (isinstance(it[k], int) and it[k] == 13):
                        k += 1
                    return it[j:k]
    return None


def accept_for(key_items):
    from lomond import constants
    d = env.sx_sha1(mk_bytes(list(key_items) + list(constants.WS_KEY))).digest()
    return items_of(env.sx_b64encode(d))


def reply_101(w, sock, extra=b''):
    key = request_key(w, sock)
    if key is None:
        raise EngineLimit('server stub: no upgrade request was written before the first read')
    acc = accept_for(key)
    return (list(b'HTTP/1.1 101 Switching Protocols\r\nUpgrade: websocket\r\nConnection: Upgrade\r\n'
                 b'Sec-WebSocket-Accept: ') + acc + list(b'\r\n') + list(extra) + list(b'\r\n'))


def server_stream(after, extra=b''):
    """script stream: valid handshake reply followed by `after` items"""
    def f(w, sock):
        hs = reply_101(w, sock, extra)
        w.notes['hs_len'] = len(hs)
        return hs + list(after)
    return f


def drive(w, ws, connect_kwargs, app=None, max_events=400):
    """iterate the connection; app(idx, event, ws, gen) may call send_*/close or raise Abandon"""
    rec = Rec()
    gen = ws.connect(**connect_kwargs)
    rec.gen = gen
    try:
        while True:
            try:
                ev = next(gen)
            except StopIteration:
                rec.stopped = True
                break
            idx = len(rec.events)
            rec.events.append(ev)
            w.log.append(('event', idx, ev.name))
            w.event_index = idx
            if app is not None:
                app(idx, ev, ws, gen)
            if len(rec.events) > max_events:
                raise LoopBudget('more than %d events' % max_events)
    except Abandon:
        rec.abandoned = True
    except LoopBudget as e:
        rec.budget = str(e)
    except Exception as e:          # anything the library let escape
        rec.exc = e
    return rec


# ---- payload terms of events ---------------------------------------------------------------

def text_utf8_items(t):
    """UTF-8 byte items denoted by a (possibly symbolic) str"""
    if isinstance(t, SymStr):
        if t.cps is None:
            return list(t.utf8)
        return items_of(t.encode('utf-8'))
    if isinstance(t, str):
        return list(t.encode('utf-8', 'surrogatepass'))
    raise Violation('event text attribute has type %s' % type(t).__name__, Ctx.cur.model())


def data_items(d):
    if isinstance(d, (bytes, bytearray, memoryview, SymSeq)):
        return items_of(d)
    raise Violation('event data attribute has type %s' % type(d).__name__, Ctx.cur.model())


def bytes_consumed_before(w, sock_id, log_index):
    return sum(e[2] for e in w.log[:log_index] if e[0] == 'recv' and e[1] == sock_id)


def read_boundaries(w, sock_id):
    out = []
    tot = 0
    for e in w.log:
        if e[0] == 'recv' and e[1] == sock_id:
            tot += e[2]
            out.append(tot)
    return out


def event_log_index(w, idx):
    for i, e in enumerate(w.log):
        if e[0] == 'event' and e[1] == idx:
            return i
    return None


# =============================================================================================
# the receive-side oracle (C01 / C04 / C05-pipeline / C14 / C08-echo), tagged per property
# =============================================================================================

class Oblig(object):
    """collects obligations; only those whose tag is enabled are discharged"""

    def __init__(self, c, tags):
        self.c = c
        self.tags = set(tags)
        self.count = 0

    def on(self, tag):
        return tag in self.tags

    def prove(self, tag, cond, what, sig=None):
        if tag in self.tags:
            self.count += 1
            self.c.prove(cond, '%s: %s' % (tag, what), sig=sig)

    def fail(self, tag, what, sig=None):
        if tag in self.tags:
            self.count += 1
            self.c.fail('%s: %s' % (tag, what), sig=sig)


def compare_msg(ob, tag, ev, ref, k, client_closed=False):
    """k-th message: implementation event `ev` vs reference message `ref`"""
    kind = ref[0]
    want = {'text': 'text', 'binary': 'binary', 'ping': 'ping', 'pong': 'pong',
            'close': 'closed' if client_closed else 'closing'}[kind]
    if ev.name != want:
        ob.fail(tag, 'message %d: expected a %s event, got %s' % (k, want, ev.name))
        return
    if kind == 'text':
        ob.prove(tag, eq_items(text_utf8_items(ev.text), ref[1]), 'message %d: Text payload differs from what was sent' % k)
    elif kind in ('binary', 'ping', 'pong'):
        ob.prove(tag, eq_items(data_items(ev.data), ref[1]), 'message %d: %s payload differs from what was sent' % (k, kind))
    else:
        code, reason = ref[1], ref[2]
        if code is None:
            if ev.code is not None:
                ob.fail(tag, 'message %d: Close without payload reported with a code' % k)
            ob.prove(tag, eq_items(text_utf8_items(ev.reason), []), 'message %d: Close reason not empty' % k)
        else:
            if ev.code is None:
                ob.fail(tag, 'message %d: Close code lost' % k)
            else:
                ob.prove(tag, engine.eq_term(ev.code, code), 'message %d: Close code differs' % k)
            ob.prove(tag, eq_items(text_utf8_items(ev.reason), reason), 'message %d: Close reason differs' % k)


def check_receive(c, w, rec, stream, tags, auto_pong=True, sock_id=0, bytewise_failfast=True, rsv1_ok=False,
                  client_closed=False):
    """Oracle for a passive application receiving `stream` (items after the handshake) then EOF.
    client_closed: the application called close(1000, b'bye') at Ready (the stream is then received in the closing
    state: the server's Close is the reply -> Closed; no Pongs are written)."""
    ob = Oblig(c, tags)
    ref = refmodel.ref_receive(stream, rsv1_ok=rsv1_ok)
    names = rec.names()
    hs_len = w.notes.get('hs_len', 0)
    cls = set(ref.classes)
    # ---- generic well-formedness needed to interpret the record
    if rec.exc is not None:
        ob.fail('C04' if ob.on('C04') else sorted(ob.tags)[0],
                'exception escaped the event iterator: %r' % (rec.exc,))
        return cls, ob
    if rec.budget is not None:
        sc = w.socks[sock_id].script if sock_id < len(w.socks) else None
        if ob.on('C18') and sc is not None and sc.items is not None and (sc.remaining() > 0 or sc.end in ('eof', 'error')):
            # the loop went on waiting (poll timeout after poll timeout) although bytes - or the end of the stream - had been
            # available to the client all the time
            ob.fail('C18', 'the loop keeps waiting although %d byte(s) / the end of the stream are available to read (%s; events %s)'
                    % (sc.remaining(), rec.budget, names[:8]), sig='C18: loop waits although data is available')
            return cls, ob
        raise EngineLimit('loop budget hit in receive harness: %s' % rec.budget)
    evs = rec.events
    msg_idx = [i for i, e in enumerate(evs) if e.name in MSG_EVENTS]
    pe_idx = [i for i, e in enumerate(evs) if e.name == 'protocol_error']
    first_pe = pe_idx[0] if pe_idx else None
    before = [i for i in msg_idx if first_pe is None or i < first_pe]
    after = [i for i in msg_idx if first_pe is not None and i > first_pe]
    L = len(stream)
    v = ref.viol
    # ---- C01: delivery of everything that completed before the violation / end
    nref = len(ref.msgs)
    if ref.dontcare:
        if len(before) < nref:
            ob.fail('C01', 'only %d of %d messages delivered' % (len(before), nref))
        for k in range(min(nref, len(before))):
            compare_msg(ob, 'C01', evs[before[k]], ref.msgs[k], k, client_closed)
    else:
        if len(before) < nref:
            ob.fail('C01', 'only %d of %d messages delivered (events %s)' % (len(before), nref, names))
        for k in range(min(nref, len(before))):
            compare_msg(ob, 'C01', evs[before[k]], ref.msgs[k], k, client_closed)
        if len(before) > nref:
            extra = evs[before[nref]]
            if v is None:
                ob.fail('C01', 'extra %s event: %d events for %d messages' % (extra.name, len(before), nref))
            else:
                ob.fail('C04', 'content of the violating frame (or later) delivered as %s event (%s)'
                        % (extra.name, v['kind']))
        # ---- C04
        if v is None:
            if pe_idx:
                ob.fail('C04', 'ProtocolError on a conforming stream: %r' % (getattr(evs[first_pe], 'error', None),))
        else:
            cls.add('viol:' + v['kind'])
            bounds = [b - hs_len for b in read_boundaries(w, sock_id)]
            bounds = [b for b in bounds if b >= 0]

            def B(x):
                for b in bounds:
                    if b >= x:
                        return b
                return None
            is_utf8 = v.get('utf8', False)
            complete = v['complete']
            if len(pe_idx) > 1:
                ob.fail('C04', 'more than one ProtocolError')
            if after:
                ob.fail('C04', 'message event %s after ProtocolError' % evs[after[0]].name)
            if pe_idx:
                li = event_log_index(w, first_pe)
                consumed = bytes_consumed_before(w, sock_id, li) - hs_len
                if consumed < v['earliest']:
                    ob.fail('C05' if is_utf8 else 'C04',
                            'ProtocolError after %d bytes, but the stream is conforming up to byte %d (%s)'
                            % (consumed, v['earliest'], v['kind']))
                if is_utf8 and bytewise_failfast:
                    bl = B(v.get('ff_limit', v['earliest']))
                    if bl is not None and consumed > bl:
                        ob.fail('C05', 'invalid UTF-8 certain after %d bytes but reported only after %d (not fail-fast)'
                                % (v.get('ff_limit', v['earliest']), consumed))
            else:
                if complete:
                    ob.fail('C04', 'violating frame (%s) completely received but no ProtocolError (events %s)'
                            % (v['kind'], names))
                elif is_utf8 and bytewise_failfast and B(v.get('ff_limit', v['earliest'])) is not None:
                    ob.fail('C05', 'invalid UTF-8 certain after %d bytes but never reported (not fail-fast; events %s)'
                            % (v.get('ff_limit', v['earliest']), names))
            # connection must end non-gracefully
            if names and names[-1] == 'disconnected':
                if evs[-1].graceful and ref.server_close_at is None and (pe_idx or complete):
                    ob.fail('C04', 'graceful Disconnected after a protocol violation')
            else:
                ob.fail('C04', 'connection did not end with Disconnected (events %s)' % names)
    # ---- C18 (liveness, prefix form): every message whose last byte has been received is delivered -- and every
    # automatic reply written -- in the same loop cycle, i.e. before the loop waits on the selector again
    if ob.on('C18'):
        consumed = 0
        for li, e in enumerate(w.log):
            if e[0] != 'recv' or e[1] != sock_id:
                continue
            consumed += e[2]
            b = consumed - hs_len
            if b < 0:
                continue
            nxt = len(w.log)
            for lj in range(li + 1, len(w.log)):
                if w.log[lj][0] == 'wait':
                    nxt = lj
                    break
            due = [k for k, end in enumerate(ref.ends) if end <= b]
            got = [x for x in w.log[:nxt] if x[0] == 'event' and x[2] in MSG_EVENTS]
            if len(got) < len(due) and (v is None or first_pe is None or len(due) <= len(before)):
                ob.fail('C18', 'after %d stream bytes %d message(s) were complete but only %d delivered before the loop waited again'
                        % (b, len(due), len(got)), sig='C18: complete message not delivered in the cycle its last byte arrived')
            if auto_pong and not client_closed:
                pings_due = len([k for k in due if ref.msgs[k][0] == 'ping' and
                                 (ref.server_close_at is None or k < ref.server_close_at)])
                pongs = 0
                for x in w.log[:nxt]:
                    if x[0] in ('write', 'write-failed') and x[1] == sock_id:
                        it0 = items_of(x[2])[:1]
                        if it0 and isinstance(it0[0], int) and it0[0] & 0x0F == 0x0A and it0[0] & 0x80:
                            pongs += 1
                if pongs < pings_due:
                    ob.fail('C18', 'after %d stream bytes %d Ping(s) were complete but only %d Pong(s) written before the loop waited again'
                            % (b, pings_due, pongs), sig='C18: automatic reply not written in the cycle the Ping arrived')
    # ---- terminal event
    if not names or names[-1] != 'disconnected' or not rec.stopped:
        ob.fail('C01' if ob.on('C01') else sorted(ob.tags)[0], 'iteration did not end with Disconnected: %s' % names)
    elif v is None and not ref.dontcare and not client_closed:
        if evs[-1].graceful:
            ob.fail('C01' if ob.on('C01') else 'C04', 'graceful Disconnected although no Close was exchanged')
    # ---- wire: C14 pongs, C08 echo, C04 at most one Close after the violation
    # attempted writes (a write whose sendall was made to fail still shows what the library tried to send)
    writes = [(i, e[2]) for i, e in enumerate(w.log) if e[0] in ('write', 'write-failed') and e[1] == sock_id][1:]
    frames = []
    wire_ok = True
    for li, data in writes:
        try:
            fs = refmodel.decode_client_frames(items_of(data))
        except refmodel.WireError as e:
            ob.fail('C14' if ob.on('C14') else sorted(ob.tags)[0], 'client wrote bytes that are not whole masked frames: %s' % e)
            wire_ok = False
            break
        if len(fs) != 1:
            ob.fail('C14' if ob.on('C14') else sorted(ob.tags)[0], 'one write carried %d frames' % len(fs))
        for f in fs:
            f['log'] = li
            frames.append(f)
    if wire_ok and client_closed:
        # the application's own Close is the first frame; afterwards nothing may be written at all
        if not frames or frames[0]['opcode'] != refmodel.CLOSE:
            ob.fail('C08', 'application close() at Ready did not write a Close frame first')
        elif len(frames) > 1:
            ob.fail('C04' if v is not None else 'C08', 'frame (opcode %d) written after the client already sent its Close'
                    % frames[1]['opcode'])
        if v is not None and pe_idx and names[-1] == 'disconnected' and evs[-1].graceful:
            ob.fail('C04', 'graceful Disconnected after a protocol violation in the closing state')
        wire_ok = False
    if wire_ok:
        fi = 0
        closed_by_client = False
        for k, m in enumerate(ref.msgs):
            if k >= len(before):
                break
            ev_li = event_log_index(w, before[k])
            if m[0] == 'ping':
                cls.add('ping%d' % min(len(m[1]), 9))
                if auto_pong and not closed_by_client:
                    if fi >= len(frames) or frames[fi]['opcode'] != refmodel.PONG:
                        ob.fail('C14', 'Ping %d not answered by a Pong (next frame: %s)'
                                % (k, frames[fi]['opcode'] if fi < len(frames) else 'none'))
                        break
                    f = frames[fi]
                    fi += 1
                    ob.prove('C14', eq_items(f['payload'], m[1]), 'Pong payload differs from Ping %d payload' % k)
                    if not f['fin'] or f['rsv1'] or f['rsv2'] or f['rsv3']:
                        ob.fail('C14', 'Pong frame with wrong FIN/RSV bits')
                    if f['log'] > ev_li:
                        ob.fail('C14', 'Pong for Ping %d written after the Ping event was handed to the application' % k)
            elif m[0] == 'close':
                if fi >= len(frames) or frames[fi]['opcode'] != refmodel.CLOSE:
                    ob.fail('C08', 'server Close not echoed by a Close frame')
                    break
                f = frames[fi]
                fi += 1
                closed_by_client = True
                if m[1] is None:
                    ob.prove('C08', eq_items(f['payload'], []), 'empty server Close echoed with a payload')
                else:
                    if len(f['payload']) < 2:
                        ob.fail('C08', 'Close echo lost the code')
                    else:
                        code = refmodel._u(f['payload'][:2])
                        ob.prove('C08', engine.eq_term(code, m[1]), 'Close echo carries a different code')
                if f['log'] < ev_li:
                    ob.fail('C08', 'Close echo written before the Closing event was handed to the application')
        rest = frames[fi:]
        if not auto_pong:
            if any(f['opcode'] == refmodel.PONG for f in frames):
                ob.fail('C14', 'library wrote a Pong although auto_pong is disabled')
        if not ref.dontcare:
            n_close = sum(1 for f in rest if f['opcode'] == refmodel.CLOSE)
            others = [f for f in rest if f['opcode'] != refmodel.CLOSE]
            if v is None:
                if rest:
                    ob.fail('C14' if rest[0]['opcode'] == refmodel.PONG else 'C08',
                            'unexpected frame (opcode %d) written on a conforming stream' % rest[0]['opcode'])
            else:
                if n_close > 1:
                    ob.fail('C04', 'more than one Close frame written after a protocol violation')
                if others:
                    ob.fail('C04', 'frame with opcode %d written after/for the violating frame' % others[0]['opcode'])
                if rest and rest[-1]['opcode'] != refmodel.CLOSE:
                    ob.fail('C04', 'frame written after the Close that follows a violation')
        else:
            # after a server Close: at most one Close per connection, nothing after it (C08)
            closes = [j for j, f in enumerate(frames) if f['opcode'] == refmodel.CLOSE]
            if len(closes) > 1:
                ob.fail('C08', 'two Close frames written in one connection')
            if closes and any(f['opcode'] in (1, 2, 0) for f in frames[closes[0] + 1:]):
                ob.fail('C08', 'data frame written after the Close frame')
    return cls, ob


def scribble_receive_buffer(ws):
    """overwrite the session's reused receive buffer (aliasing clause of C01)"""
    s = ws.state.session
    buf = getattr(s, '_buffer', None)
    if buf is None:
        return
    if isinstance(buf, symdata.SymByteArray):
        buf.items[:] = [0xEE] * len(buf.items)
    else:
        buf[:] = b'\xEE' * len(buf)


def sample_of(model, names, rec):
    return {'input': {k: model[k] for k in names if k in model}, 'events': rec.names()}
