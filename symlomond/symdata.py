"""
symlomond.symdata -- sequences with symbolic holes (bytes / bytearray / memoryview / str).

Every sequence has a *concrete length*; items are python ints or SymInt.  Methods are written
as plain Python over the items, so content-dependent results fork through SymInt comparisons
(each fork decided by z3).  Only what lomond calls is modelled; anything else raises
EngineLimit (=> inconclusive), never a silent wrong answer.

The models are differential-tested against CPython on concrete data by selftest.py.
"""
import builtins
import z3
from .engine import bvv

from .engine import (Ctx, SymInt, SymBool, SymReal, EngineLimit, PathAbort, eq_term, _ext)

_bytes = builtins.bytes
_bytearray = builtins.bytearray
_memoryview = builtins.memoryview
_str = builtins.str
_int = builtins.int

BYTES_WS = (9, 10, 11, 12, 13, 32)
STR_WS = (9, 10, 11, 12, 13, 28, 29, 30, 31, 32, 0x85, 0xA0, 0x1680, 0x2028, 0x2029, 0x202F,
          0x205F, 0x3000) + tuple(range(0x2000, 0x200B))


def _concrete(items):
    for i in items:
        if not isinstance(i, _int):
            return False
    return True


def mk_bytes(items):
    items = list(items)
    if _concrete(items):
        return _bytes(items)
    return SymBytes(items)


def mk_str(cps):
    cps = list(cps)
    if _concrete(cps):
        return ''.join(chr(c) for c in cps)
    return SymStr(cps=cps)


def items_of(x):
    """items of any bytes-like (real or symbolic)."""
    if isinstance(x, SymSeq):
        return x._get()
    if isinstance(x, (_bytes, _bytearray, _memoryview)):
        return list(x)
    if isinstance(x, (list, tuple)):
        return list(x)
    raise TypeError('not bytes-like: %r' % type(x))


def is_symseq(x):
    return isinstance(x, (SymSeq, SymStr))


def has_sym(x):
    """does x (shallowly) carry symbolic content?"""
    if isinstance(x, (SymInt, SymBool, SymReal, SymSeq, SymStr, SymLenBase)):
        return True
    if isinstance(x, (list, tuple)):
        for i in x:
            if isinstance(i, (SymInt, SymBool, SymReal, SymSeq, SymStr, SymLenBase)):
                return True
    return False


def eq_items(a, b):
    """two item lists are equal: python bool when decidable concretely, else a z3 Bool."""
    if len(a) != len(b):
        return False
    cs = []
    for x, y in zip(a, b):
        if isinstance(x, _int) and isinstance(y, _int):
            if x != y:
                return False
            continue
        cs.append(eq_term(x, y))
    if not cs:
        return True
    return z3.And(cs) if len(cs) > 1 else cs[0]


def tb(x):
    """truth of a python bool / z3 Bool / SymBool (forks when symbolic)"""
    if x is True or x is False:
        return x
    if isinstance(x, SymBool):
        return bool(x)
    return Ctx.cur.branch(x)


def sb(x):
    """wrap for return from __eq__: python bool stays, z3 Bool becomes SymBool"""
    if x is True or x is False:
        return x
    return SymBool(x)


def item_in(x, values):
    """python bool (forking): item x is one of the concrete ints `values`."""
    if isinstance(x, _int):
        return x in values
    x = SymInt.lift(x)
    return bool(SymBool(z3.Or([x.e == bvv(v, x.w) for v in values if v < (1 << x.w)] or [z3.BoolVal(False)])))


def ite_item(cond, a, b, w):
    a = SymInt.lift(a)
    b = SymInt.lift(b)
    return SymInt(z3.If(cond, a.at(w), b.at(w)), w)


def _range(x, lo, hi):
    """z3 Bool lo <= x <= hi for item x (SymInt)"""
    return z3.And(z3.UGE(x.e, bvv(lo, x.w)), z3.ULE(x.e, bvv(hi, x.w)))


def _norm_slice(k, n):
    """resolve a slice whose bounds may be SymInt to concrete (start, stop, step); forks."""
    start, stop, step = k.start, k.stop, k.step
    if isinstance(step, SymInt):
        step = step.concretize()

    def fix(v):
        if isinstance(v, SymInt):
            sv = z3.simplify(v.e)
            if z3.is_bv_value(sv):
                return sv.as_long()
            # fork on min(v, n): values 0..n-1 individually, else >= n
            if bool(v >= n):
                return n
            return Ctx.cur.split_value(v.e, v.w, 0, n - 1)
        return v
    return slice(fix(start), fix(stop), step)


# =============================================================================================
class SymSeq(object):
    """common behaviour of the bytes-like symbolic sequences"""
    _ws = BYTES_WS
    _mutable = False

    def _get(self):
        return self.items

    def _new(self, items):
        return mk_bytes(items)

    # ---- basic protocol -------------------------------------------------------------------
    def __len__(self):
        return len(self._get())

    def __iter__(self):
        return iter(list(self._get()))

    def __bool__(self):
        return len(self._get()) > 0

    def __getitem__(self, k):
        items = self._get()
        if isinstance(k, slice):
            k = _norm_slice(k, len(items))
            return self._slice(k)
        if isinstance(k, SymInt):
            k = k.concretize()
        return items[k]

    def _slice(self, k):
        return self._new(self._get()[k])

    def __eq__(self, o):
        if isinstance(o, (SymSeq, _bytes, _bytearray, _memoryview)):
            return sb(eq_items(self._get(), items_of(o)))
        return False

    def __ne__(self, o):
        r = self.__eq__(o)
        if r is False:
            return True
        if r is True:
            return False
        return SymBool(z3.Not(r.e))

    def concretize(self):
        return _bytes([i if isinstance(i, _int) else i.concretize() for i in self._get()])

    def __hash__(self):
        return hash(self.concretize())

    def __add__(self, o):
        if isinstance(o, (SymSeq, _bytes, _bytearray, _memoryview)):
            return self._new(self._get() + items_of(o))
        return NotImplemented

    def __radd__(self, o):
        if isinstance(o, (_bytes, _bytearray, _memoryview)):
            r = list(o) + self._get()
            if isinstance(o, _bytearray):
                return SymByteArray(r)
            return mk_bytes(r)
        return NotImplemented

    def __mul__(self, n):
        return self._new(self._get() * n)

    def __contains__(self, x):
        if isinstance(x, (_int, SymInt)):
            for i in self._get():
                if tb(eq_term(i, x) if not (isinstance(i, _int) and isinstance(x, _int)) else i == x):
                    return True
            return False
        return self.find(x) != -1

    def __repr__(self):
        return '<%s len=%d>' % (type(self).__name__, len(self))

    def __format__(self, spec):
        return '<symbytes>'

    # ---- searching ------------------------------------------------------------------------
    def find(self, sep, start=0, end=None):
        items = self._get()
        sep = items_of(sep)
        # start/end are interpreted as in slice notation (negative values count from the end)
        start, n, _ = slice(start, end).indices(len(items))
        m = len(sep)
        if _concrete(items) and _concrete(sep):
            return _bytes(items).find(_bytes(sep), start, n)
        i = start
        while i + m <= n:
            if tb((eq_items(items[i:i + m], sep))):
                return i
            i += 1
        return -1

    def index(self, sep, *a):
        r = self.find(sep, *a)
        if r < 0:
            raise ValueError('subsection not found')
        return r

    def isdigit(self):
        """bytes.isdigit(): non-empty and every byte an ASCII digit (forks per symbolic byte).  (SymStr overrides it.)"""
        it = self._get()
        if not it:
            return False
        for x in it:
            if isinstance(x, _int):
                if not 48 <= x <= 57:
                    return False
            elif not bool(SymBool(_range(SymInt.lift(x), 48, 57))):
                return False
        return True

    def startswith(self, prefix, start=0):
        if isinstance(prefix, tuple):
            for p in prefix:
                if self.startswith(p, start):
                    return True
            return False
        p = items_of(prefix) if not isinstance(prefix, (_str, SymStr)) else _str_items(prefix)
        items = self._get()[start:]
        if len(p) > len(items):
            return False
        return tb((eq_items(items[:len(p)], p)))

    def endswith(self, suffix):
        if isinstance(suffix, tuple):
            for p in suffix:
                if self.endswith(p):
                    return True
            return False
        p = items_of(suffix) if not isinstance(suffix, (_str, SymStr)) else _str_items(suffix)
        items = self._get()
        if len(p) > len(items):
            return False
        if not p:
            return True
        return tb((eq_items(items[-len(p):], p)))

    def partition(self, sep):
        i = self.find(sep)
        items = self._get()
        if i < 0:
            return (self._new(items), self._new([]), self._new([]))
        m = len(sep)
        return (self._new(items[:i]), self._new(items[i:i + m]), self._new(items[i + m:]))

    def split(self, sep=None, maxsplit=-1):
        items = self._get()
        out = []
        if sep is None:
            i = 0
            n = len(items)
            while True:
                while i < n and item_in(items[i], self._ws):
                    i += 1
                if i >= n:
                    break
                if maxsplit >= 0 and len(out) >= maxsplit:
                    # the remainder keeps its trailing whitespace (CPython semantics)
                    out.append(self._new(items[i:n]))
                    break
                j = i
                while j < n and not item_in(items[j], self._ws):
                    j += 1
                out.append(self._new(items[i:j]))
                i = j
            return out
        sepi = items_of(sep) if not isinstance(sep, (_str, SymStr)) else _str_items(sep)
        m = len(sepi)
        if m == 0:
            raise ValueError('empty separator')
        i = 0
        last = 0
        n = len(items)
        while i + m <= n:
            if maxsplit >= 0 and len(out) >= maxsplit:
                break
            if tb((eq_items(items[i:i + m], sepi))):
                out.append(self._new(items[last:i]))
                i += m
                last = i
            else:
                i += 1
        out.append(self._new(items[last:]))
        return out

    def _strip(self, chars, left, right):
        items = self._get()
        if chars is None:
            cs = self._ws
        else:
            cs = tuple(items_of(chars)) if not isinstance(chars, (_str, SymStr)) else tuple(_str_items(chars))
            if not _concrete(cs):
                raise EngineLimit('strip() with symbolic character set')
        i, j = 0, len(items)
        if left:
            while i < j and item_in(items[i], cs):
                i += 1
        if right:
            while j > i and item_in(items[j - 1], cs):
                j -= 1
        return self._new(items[i:j])

    def strip(self, chars=None):
        return self._strip(chars, True, True)

    def lstrip(self, chars=None):
        return self._strip(chars, True, False)

    def rstrip(self, chars=None):
        return self._strip(chars, False, True)

    def lower(self):
        out = []
        for x in self._get():
            if isinstance(x, _int):
                out.append(x + 32 if 65 <= x <= 90 else x)
            else:
                out.append(SymInt(z3.If(_range(x, 65, 90), x.e + bvv(32, x.w), x.e), x.w))
        return self._new(out)

    def upper(self):
        out = []
        for x in self._get():
            if isinstance(x, _int):
                out.append(x - 32 if 97 <= x <= 122 else x)
            else:
                out.append(SymInt(z3.If(_range(x, 97, 122), x.e - bvv(32, x.w), x.e), x.w))
        return self._new(out)

    def join(self, parts):
        sep = self._get()
        out = []
        first = True
        any_ba = False
        for p in parts:
            if not first:
                out.extend(sep)
            first = False
            out.extend(items_of(p))
        return self._new(out)

    def translate(self, table):
        out = []
        for x in self._get():
            out.append(table_lookup(table, x))
        return self._new(out)

    def decode(self, encoding='utf-8', errors='strict'):
        return decode_items(self._get(), encoding, errors)

    def hex(self):
        return self.concretize().hex()

    def tobytes(self):
        return mk_bytes(self._get())


class SymBytes(SymSeq):
    def __init__(self, items):
        self.items = list(items)


class SymByteArray(SymSeq):
    """mutable; always used in place of bytearray inside the instrumented package"""
    _mutable = True

    def __init__(self, items=()):
        self.items = list(items)
        self._exports = 0          # live memoryviews of this buffer (CPython: a bytearray with exports cannot be resized)

    def _new(self, items):
        return SymByteArray(items)

    def _resizing(self):
        if getattr(self, '_exports', 0) > 0:
            raise BufferError('Existing exports of data: object cannot be re-sized')

    def extend(self, other):
        it = items_of(other)
        if it:
            self._resizing()
        self.items.extend(it)

    def append(self, x):
        self._resizing()
        self.items.append(x)

    def __iadd__(self, other):
        it = items_of(other)
        if it:
            self._resizing()
        self.items.extend(it)
        return self

    def __delitem__(self, k):
        if isinstance(k, slice):
            k = _norm_slice(k, len(self.items))
            if len(range(*k.indices(len(self.items)))):
                self._resizing()
        elif isinstance(k, SymInt):
            k = k.concretize()
            self._resizing()
        else:
            self._resizing()
        del self.items[k]

    def __setitem__(self, k, v):
        if isinstance(k, slice):
            k = _norm_slice(k, len(self.items))
            vi = items_of(v)
            if k.step not in (None, 1):
                idx = range(*k.indices(len(self.items)))
                if len(idx) != len(vi):
                    raise ValueError('attempt to assign bytes of size %d to extended slice of size %d'
                                     % (len(vi), len(idx)))
            elif len(range(*k.indices(len(self.items)))) != len(vi):
                self._resizing()
            self.items[k] = vi
            return
        if isinstance(k, SymInt):
            k = k.concretize()
        self.items[k] = v

    def __hash__(self):
        raise TypeError("unhashable type: 'bytearray'")

    def clear(self):
        if self.items:
            self._resizing()
        del self.items[:]

    def copy(self):
        return SymByteArray(self.items)


OPAQUE_SLICES = [False]     # C18 harness: memoryview(buf)[:n] with symbolic n -> OpaqueView (content irrelevant)


class OpaqueView(object):
    """a buffer slice of SYMBOLIC length whose content is irrelevant (only len/truthiness are used)"""

    def __init__(self, symlen):
        self.symlen = symlen

    def __bool__(self):
        return bool(self.symlen != 0)

    def __len__(self):
        raise EngineLimit('len() of an opaque symbolic-length view')


class SymMemoryView(SymSeq):
    """a *view* (no copy) on a SymByteArray: reads go to the base at access time"""

    def __init__(self, base, start=0, stop=None):
        if isinstance(base, SymMemoryView):
            start = base.start + start
            stop = base.start + (len(base) if stop is None else stop)
            base = base.base
        self.base = base
        self.start = start
        self.stop = len(base.items) if stop is None else stop
        self._live = True
        try:
            base._exports += 1
        except AttributeError:
            self._live = False

    def _get(self):
        return self.base.items[self.start:self.stop]

    def __getitem__(self, k):
        if OPAQUE_SLICES[0] and isinstance(k, slice) and isinstance(k.stop, SymInt) and k.start in (None, 0):
            return OpaqueView(k.stop)
        return SymSeq.__getitem__(self, k)

    def _slice(self, k):
        n = self.stop - self.start
        s, e, st = k.indices(n)
        if st != 1:
            return mk_bytes(self._get()[k])
        if e < s:
            e = s
        return SymMemoryView(self.base, self.start + s, self.start + e)

    def _new(self, items):
        return mk_bytes(items)

    def __setitem__(self, k, v):
        if isinstance(k, slice):
            k = _norm_slice(k, len(self))
            s, e, st = k.indices(len(self))
            vi = items_of(v)
            if st != 1 or len(vi) != e - s:
                raise ValueError('memoryview assignment: lvalue and rvalue have different structures')
            self.base.items[self.start + s:self.start + e] = vi
            return
        self.base.items[self.start + k] = v

    def release(self):
        if self._live:
            self._live = False
            self.base._exports -= 1

    def __del__(self):
        try:
            self.release()
        except Exception:
            pass

    def __hash__(self):
        return hash(self.concretize())


# =============================================================================================
# str
# =============================================================================================

def _str_items(s):
    if isinstance(s, SymStr):
        return s._get()
    return [ord(c) for c in s]


class SymStr(SymSeq):
    """text with symbolic content.  Two representations:
       cps  = list of code points (int / SymInt up to 21 bits)
       utf8 = list of byte items *known to be well-formed UTF-8* (lazy: produced by decode)"""
    _ws = STR_WS

    def __init__(self, cps=None, utf8=None):
        self.cps = None if cps is None else list(cps)
        self.utf8 = None if utf8 is None else list(utf8)

    def _get(self):
        if self.cps is None:
            self.cps = utf8_decode_forking(self.utf8)
        return self.cps

    def _new(self, items):
        return mk_str(items)

    def __len__(self):
        return len(self._get())

    def __bool__(self):
        if self.cps is None:
            return len(self.utf8) > 0
        return len(self.cps) > 0

    def __eq__(self, o):
        if isinstance(o, SymStr) and self.cps is None and o.cps is None:
            return sb(eq_items(self.utf8, o.utf8))
        if isinstance(o, _str) and self.cps is None:
            return sb(eq_items(self.utf8, list(o.encode('utf-8', 'surrogatepass'))))
        if isinstance(o, (_str, SymStr)):
            return sb(eq_items(self._get(), _str_items(o)))
        return False

    def concretize(self):
        if self.cps is None:
            return _bytes([i if isinstance(i, _int) else i.concretize() for i in self.utf8]).decode('utf-8')
        return ''.join(chr(i if isinstance(i, _int) else i.concretize()) for i in self.cps)

    def __hash__(self):
        return hash(self.concretize())

    def __add__(self, o):
        if isinstance(o, (_str, SymStr)):
            return mk_str(self._get() + _str_items(o))
        return NotImplemented

    def __radd__(self, o):
        if isinstance(o, _str):
            return mk_str(_str_items(o) + self._get())
        return NotImplemented

    def __contains__(self, x):
        return self.find(x) != -1

    def find(self, sep, start=0, end=None):
        items = self._get()
        sep = _str_items(sep)
        start, n, _ = slice(start, end).indices(len(items))
        m = len(sep)
        i = start
        while i + m <= n:
            if tb((eq_items(items[i:i + m], sep))):
                return i
            i += 1
        return -1

    def partition(self, sep):
        i = self.find(sep)
        items = self._get()
        if i < 0:
            return (mk_str(items), '', '')
        m = len(sep)
        return (mk_str(items[:i]), mk_str(items[i:i + m]), mk_str(items[i + m:]))

    def lower(self):
        out = []
        for x in self._get():
            if isinstance(x, _int):
                out.append(ord(chr(x).lower()) if len(chr(x).lower()) == 1 else _limit('lower() of %r' % chr(x)))
            else:
                ok = z3.Or(z3.ULT(x.e, bvv(128, x.w)), x.e == bvv(0xFFFD, x.w)) \
                    if x.w > 7 else z3.BoolVal(True)
                if Ctx.cur.branch(ok):
                    # ASCII and U+FFFD (what ascii/replace decoding can produce)
                    out.append(SymInt(z3.If(_range(x, 65, 90), x.e + bvv(32, x.w), x.e), x.w))
                elif x.w >= 9 and Ctx.cur.branch(x.e == bvv(0x130, x.w)):
                    out += [0x69, 0x307]          # the one code point whose lower() is two characters
                else:
                    # any other code point: CPython's own case mapping as a table of deltas (lower(cp) - cp mod 2^21)
                    d = uni_table('lower-delta', _lower_delta, 21, x)
                    out.append(SymInt(z3.Extract(20, 0, x.at(21) + d.e), 21))
        return mk_str(out)

    def upper(self):
        raise EngineLimit('SymStr.upper')

    def join(self, parts):
        sep = self._get()
        out = []
        first = True
        for p in parts:
            if not first:
                out.extend(sep)
            first = False
            out.extend(_str_items(p))
        return mk_str(out)

    def encode(self, encoding='utf-8', errors='strict'):
        enc = encoding.lower().replace('_', '-')
        if enc in ('latin-1', 'latin1', 'iso-8859-1', 'iso8859-1', 'ascii', 'us-ascii'):
            # one byte per code point; a code point outside the range is an error (strict) or '?' (replace): fork
            lim = 0x100 if enc not in ('ascii', 'us-ascii') else 0x80
            out = []
            for cp in self._get():
                if isinstance(cp, _int):
                    ok = cp < lim
                else:
                    ok = bool(cp < lim)
                if ok:
                    out.append(cp if isinstance(cp, _int) else SymInt(z3.Extract(7, 0, cp.at(21)), 8))
                elif errors == 'replace':
                    out.append(0x3F)
                elif errors == 'strict':
                    raise UnicodeEncodeError(enc, '\uffff', 0, 1, 'ordinal not in range(%d) (symbolic)' % lim)
                else:
                    raise EngineLimit('SymStr.encode(%r, %r)' % (encoding, errors))
            return mk_bytes(out)
        if enc not in ('utf-8', 'utf8'):
            raise EngineLimit('SymStr.encode(%r)' % encoding)
        if self.cps is None:
            return mk_bytes(self.utf8)
        return utf8_encode_forking(self.cps, errors)

    def decode(self, *a, **k):
        raise AttributeError("'str' object has no attribute 'decode'")

    def translate(self, table):
        raise EngineLimit('SymStr.translate')

    def format(self, *a, **k):
        raise EngineLimit('SymStr.format')

    def __format__(self, spec):
        return '<symstr>'

    def __repr__(self):
        return '<SymStr>'

    def __str__(self):
        return '<symstr>'

    def isdigit(self):
        """str.isdigit(): non-empty and every character a Unicode digit (CPython's own database for symbolic code points)"""
        it = self._get()
        if not it:
            return False
        for x in it:
            if isinstance(x, _int):
                if not chr(x).isdigit():
                    return False
            elif x.w <= 7:
                if not bool(SymBool(_range(x, 48, 57))):
                    return False
            elif not bool(uni_table('isdigit', lambda cp: 1 if chr(cp).isdigit() else 0, 1, x) == 1):
                return False
        return True


def _limit(msg):
    raise EngineLimit(msg)


# =============================================================================================
# UTF-8 models (CPython's codec; trusted, differential-tested in selftest)
# =============================================================================================

def utf8_valid_term(items):
    """z3 Bool: the byte items are well-formed UTF-8 per RFC 3629 section 4 ABNF (non-forking).

    state = (need, lo, hi): number of continuation bytes still owed and the range allowed for
    the next one; built directly from the ABNF (UTF8-1..UTF8-4)."""
    bv = lambda v, w: bvv(v, w)
    need, lo, hi = bv(0, 2), bv(0x80, 8), bv(0xBF, 8)
    ok = z3.BoolVal(True)
    for x in items:
        b = SymInt.lift(x).at(8) if not isinstance(x, _int) else bv(x, 8)
        rng = lambda a, c: z3.And(z3.UGE(b, bv(a, 8)), z3.ULE(b, bv(c, 8)))
        lead_ok = z3.Or(z3.ULE(b, bv(0x7F, 8)), rng(0xC2, 0xF4))
        n_need = z3.If(z3.ULE(b, bv(0x7F, 8)), bv(0, 2),
                       z3.If(rng(0xC2, 0xDF), bv(1, 2), z3.If(rng(0xE0, 0xEF), bv(2, 2), bv(3, 2))))
        n_lo = z3.If(b == 0xE0, bv(0xA0, 8), z3.If(b == 0xF0, bv(0x90, 8), bv(0x80, 8)))
        n_hi = z3.If(b == 0xED, bv(0x9F, 8), z3.If(b == 0xF4, bv(0x8F, 8), bv(0xBF, 8)))
        at_boundary = need == 0
        cont_ok = z3.And(z3.UGE(b, lo), z3.ULE(b, hi))
        ok = z3.And(ok, z3.If(at_boundary, lead_ok, cont_ok))
        need, lo, hi = (z3.If(at_boundary, n_need, need - 1),
                        z3.If(at_boundary, n_lo, bv(0x80, 8)),
                        z3.If(at_boundary, n_hi, bv(0xBF, 8)))
    return z3.simplify(z3.And(ok, need == 0))


def utf8_decode_forking(items):
    """code points of well-formed UTF-8 items (forks on the lead-byte class)."""
    out = []
    i = 0
    n = len(items)
    while i < n:
        b = items[i]
        if isinstance(b, _int):
            b = SymInt.lift(b)
            b = SymInt(b.at(8), 8)
        if bool(b < 0x80):
            out.append(b)
            i += 1
            continue
        if bool(b < 0xE0):
            k, cp = 1, b & 0x1F
        elif bool(b < 0xF0):
            k, cp = 2, b & 0x0F
        else:
            k, cp = 3, b & 0x07
        if i + k >= n + 0 and i + k > n - 0 and i + k > n - 1 + 0 and i + k >= n + 1 - 1 and i + k > n - 1:
            if i + k > n - 1 and i + k >= n:
                raise PathAbort('malformed utf8 in utf8-repr (caller must have branched on validity)')
        for j in range(1, k + 1):
            c = SymInt.lift(items[i + j]) & 0x3F
            cp = (SymInt.lift(cp) << 6) | c
        out.append(cp)
        i += k + 1
    return [o if not (isinstance(o, SymInt) and z3.is_bv_value(z3.simplify(o.e))) else z3.simplify(o.e).as_long()
            for o in out]


def utf8_encode_forking(cps, errors='strict'):
    out = []
    for idx, c in enumerate(cps):
        if isinstance(c, _int):
            out.extend(chr(c).encode('utf-8', errors))
            continue
        c = SymInt.lift(c)
        if bool(c < 0x80):
            out.append(c & 0x7F if c.w > 8 else c)
        elif bool(c < 0x800):
            out.append((c >> 6) | 0xC0)
            out.append((c & 0x3F) | 0x80)
        elif bool(c < 0x10000):
            if bool(c >= 0xD800) and bool(c <= 0xDFFF):
                if errors == 'replace':
                    out.append(0x3F)
                    continue
                raise UnicodeEncodeError('utf-8', '\ud800', idx, idx + 1, 'surrogates not allowed')
            out.append((c >> 12) | 0xE0)
            out.append(((c >> 6) & 0x3F) | 0x80)
            out.append((c & 0x3F) | 0x80)
        else:
            if bool(c > 0x10FFFF):
                raise PathAbort('code point out of range (harness must constrain)')
            out.append((c >> 18) | 0xF0)
            out.append(((c >> 12) & 0x3F) | 0x80)
            out.append(((c >> 6) & 0x3F) | 0x80)
            out.append((c & 0x3F) | 0x80)
    out = [SymInt(o.at(8) if o.w <= 8 else z3.Extract(7, 0, o.e), 8) if isinstance(o, SymInt) else o for o in out]
    return mk_bytes(out)


def _cmp_ge(x, v):
    return x >= v if isinstance(x, _int) else bool(SymInt.lift(x) >= v)


def _cmp_le(x, v):
    return x <= v if isinstance(x, _int) else bool(SymInt.lift(x) <= v)


def _cmp_eq(x, v):
    return x == v if isinstance(x, _int) else bool(SymInt.lift(x) == v)


def utf8_decode_lenient_items(items, errors, on_event=None):
    """CPython's bytes.decode('utf-8', 'replace'|'ignore') as plain Python over the items (each comparison on a symbolic byte forks):
    an ill-formed sequence is replaced by ONE U+FFFD per maximal well-formed prefix (Unicode "maximal subpart" practice, which
    CPython follows).  on_event() is called after every non-ASCII character / replacement."""
    out = []
    i, n = 0, len(items)

    def inr(k, lo, hi):
        return k < n and _cmp_ge(items[k], lo) and _cmp_le(items[k], hi)

    def bits(x, m):
        return x & m

    while i < n:
        b = items[i]
        if not _cmp_ge(b, 0x80):
            out.append(b)
            i += 1
            continue
        cp = None
        used = 1
        if inr(i, 0xC2, 0xDF):
            if inr(i + 1, 0x80, 0xBF):
                cp = (bits(b, 0x1F) << 6) | bits(items[i + 1], 0x3F)
                used = 2
        elif inr(i, 0xE0, 0xEF):
            lo = 0xA0 if _cmp_eq(b, 0xE0) else 0x80
            hi = 0x9F if _cmp_eq(b, 0xED) else 0xBF
            if inr(i + 1, lo, hi):
                used = 2
                if inr(i + 2, 0x80, 0xBF):
                    cp = (bits(b, 0x0F) << 12) | (bits(items[i + 1], 0x3F) << 6) | bits(items[i + 2], 0x3F)
                    used = 3
        elif inr(i, 0xF0, 0xF4):
            lo = 0x90 if _cmp_eq(b, 0xF0) else 0x80
            hi = 0x8F if _cmp_eq(b, 0xF4) else 0xBF
            if inr(i + 1, lo, hi):
                used = 2
                if inr(i + 2, 0x80, 0xBF):
                    used = 3
                    if inr(i + 3, 0x80, 0xBF):
                        cp = ((bits(b, 0x07) << 18) | (bits(items[i + 1], 0x3F) << 12) | (bits(items[i + 2], 0x3F) << 6)
                              | bits(items[i + 3], 0x3F))
                        used = 4
        if cp is not None:
            out.append(cp)
        elif errors == 'replace':
            out.append(0xFFFD)
        i += used
        if on_event is not None:
            on_event(i)
    return out


LENIENT_EVENTS = [1]      # bound: non-ASCII characters / replacements made of symbolic bytes per decode call


def utf8_decode_lenient(items, errors):
    """decode(errors='replace'|'ignore') of bytes with symbolic holes.  One branch covers "every symbolic byte is ASCII" (any length);
    otherwise the decoder forks byte by byte, and - a stated BOUND - after LENIENT_EVENTS non-ASCII characters/replacements the remaining
    symbolic bytes are assumed ASCII (inputs with more are outside the claim; reached only by code that decodes leniently at all)."""
    sym = [x for x in items if not isinstance(x, _int)]
    if Ctx.cur.branch(z3.And([z3.ULT(x.at(8), bvv(128, 8)) for x in sym])):
        out, run = [], []
        for x in items:
            if isinstance(x, _int):
                run.append(x)
            else:
                out += [ord(ch) for ch in _bytes(run).decode('utf-8', errors)]
                run = []
                out.append(x)
        out += [ord(ch) for ch in _bytes(run).decode('utf-8', errors)]
        return mk_str(out)
    seen = [0]

    def on_event(pos):
        seen[0] += 1
        if seen[0] == LENIENT_EVENTS[0]:
            rest = [x for x in items[pos:] if not isinstance(x, _int)]
            if rest:
                Ctx.cur.notes.setdefault('bounds', []).append('utf-8 lenient decode: at most %d non-ASCII characters among symbolic bytes'
                                                              % LENIENT_EVENTS[0])
                Ctx.cur.assume(z3.And([z3.ULT(x.at(8), bvv(128, 8)) for x in rest]))
    return mk_str(utf8_decode_lenient_items(items, errors, on_event))


def decode_items(items, encoding='utf-8', errors='strict'):
    enc = encoding.lower().replace('_', '-')
    if _concrete(items):
        return _bytes(items).decode(encoding, errors)
    if enc in ('utf-8-sig', 'utf8-sig'):
        # as utf-8, minus ONE leading byte-order mark EF BB BF
        if len(items) >= 3:
            a, b, c3 = [SymInt.lift(x).at(8) for x in items[:3]]
            if Ctx.cur.branch(z3.And(a == 0xEF, b == 0xBB, c3 == 0xBF)):
                return decode_items(items[3:], 'utf-8', errors)
        return decode_items(items, 'utf-8', errors)
    if enc in ('utf-8', 'utf8'):
        if errors in ('replace', 'ignore'):
            return utf8_decode_lenient(items, errors)
        if errors != 'strict':
            raise EngineLimit('utf-8 decode with errors=%r on symbolic bytes' % errors)
        if Ctx.cur.branch(utf8_valid_term(items)):
            return SymStr(utf8=items)
        raise UnicodeDecodeError('utf-8', b'\xff', 0, 1, 'invalid utf-8 (symbolic)')
    if enc in ('ascii', 'us-ascii'):
        if errors == 'replace':
            out = []
            for x in items:
                if isinstance(x, _int):
                    out.append(x if x < 128 else 0xFFFD)
                else:
                    out.append(SymInt(z3.If(z3.ULT(x.at(8), bvv(128, 8)),
                                            x.at(16), bvv(0xFFFD, 16)), 16))
            return mk_str(out)
        if errors == 'strict':
            for x in items:
                if not isinstance(x, _int) and not bool(x < 128):
                    raise UnicodeDecodeError('ascii', b'\xff', 0, 1, 'ordinal not in range(128)')
            return mk_str(items)
    raise EngineLimit('decode(%r, %r) on symbolic bytes' % (encoding, errors))


# =============================================================================================
# table look-ups with a symbolic index
# =============================================================================================

def ite_table(values, idx):
    """values: list of python ints; idx: SymInt.  Balanced ITE tree over runs of equal values."""
    n = min(len(values), 1 << idx.w)
    if n <= 0:
        raise IndexError('index out of range')
    if len(values) < (1 << idx.w):
        # an index beyond the table is an IndexError in Python: fork on it
        if Ctx.cur.branch(z3.UGE(idx.e, bvv(len(values), idx.w))):
            raise IndexError('index out of range')
    key = (tuple(values[:n]), idx.w)
    ent = _ITE_CACHE.get(key)
    if ent is None:
        vw = max(1, max(values[:n]).bit_length())
        runs = []      # (start, value)
        for i in range(n):
            if not runs or runs[-1][1] != values[i]:
                runs.append((i, values[i]))
        ph = z3.BitVec('ite_table_idx!%d' % idx.w, idx.w)

        def rec(lo, hi):
            if hi - lo == 1:
                return bvv(runs[lo][1], vw)
            mid = (lo + hi) // 2
            return z3.If(z3.ULT(ph, bvv(runs[mid][0], idx.w)), rec(lo, mid), rec(mid, hi))
        ent = _ITE_CACHE[key] = (rec(0, len(runs)), ph, vw)
    tree, ph, vw = ent
    return SymInt(z3.substitute(tree, (ph, idx.e)), vw)


_ITE_CACHE = {}
_UNI_CACHE = {}


def uni_table(name, fn, vw, x):
    """fn(code point) -> int (< 2**vw) for EVERY code point 0..0x10FFFF, as a balanced ITE tree over runs of equal values, indexed by
    the symbolic code point x (cached per name; built once per process from CPython's own unicode database)."""
    ent = _UNI_CACHE.get(name)
    if ent is None:
        runs = []
        for cp in range(0x110000):
            v = fn(cp)
            if not runs or runs[-1][1] != v:
                runs.append((cp, v))
        ph = z3.BitVec('uni_table_idx!' + name, 21)

        def rec(lo, hi):
            if hi - lo == 1:
                return bvv(runs[lo][1], vw)
            mid = (lo + hi) // 2
            return z3.If(z3.ULT(ph, bvv(runs[mid][0], 21)), rec(lo, mid), rec(mid, hi))
        ent = _UNI_CACHE[name] = (rec(0, len(runs)), ph, len(runs))
    tree, ph, _n = ent
    if x.w > 21:
        raise EngineLimit('code point wider than 21 bits')
    return SymInt(z3.substitute(tree, (ph, x.at(21))), vw)


def _lower_delta(cp):
    low = chr(cp).lower()
    return (ord(low) - cp) & 0x1FFFFF if len(low) == 1 else 0


def _decimal_value(cp):
    import unicodedata
    return unicodedata.decimal(chr(cp), 15)


class RowSel(object):
    """rows[n] for a symbolic n where rows is a list of 256-byte translate tables"""

    def __init__(self, rows, n):
        self.rows = rows
        self.n = n

    def lookup(self, x):
        n = self.n
        key = id(self.rows)
        bad = _xor_lemma(self.rows)
        x = SymInt.lift(x)
        e = n.at(8) ^ x.at(8)
        for r in bad:
            e = z3.If(n.at(8) == r, ite_table(list(self.rows[r]), SymInt(x.at(8), 8)).at(8), e)
        return SymInt(e, 8)

    def __getitem__(self, x):
        return self.lookup(x)

    def __len__(self):
        return 256


_XOR_LEMMA = {}
XOR_LEMMA_STATS = {'obligations': 0, 'discharged': 0, 'bad_rows': None}


def _xor_lemma(rows):
    """Lemma: for every row r and byte x, rows[r][x] == r ^ x -- decided by z3 on the ITE encoding
    of the real table, one query per row.  Rows where it fails are returned (encoded as
    exceptions by the caller, so a wrong table entry stays visible)."""
    key = id(rows)
    if key in _XOR_LEMMA:
        return _XOR_LEMMA[key]
    if len(rows) != 256:
        raise EngineLimit('translate-table list of unexpected shape')
    s = z3.SolverFor('QF_BV')
    x = z3.BitVec('lemma_x', 8)
    bad = []
    saved = Ctx.cur
    for r in range(256):
        row = list(rows[r])
        if len(row) != 256:
            raise EngineLimit('translate table row %d has length %d' % (r, len(row)))
        # ite_table may fork on out-of-range; rows are full so it does not
        t = _ite_plain(row, x, 8)
        XOR_LEMMA_STATS['obligations'] += 1
        s.push()
        s.add(t != (bvv(r, 8) ^ x))
        res = s.check()
        s.pop()
        if res == z3.unsat:
            XOR_LEMMA_STATS['discharged'] += 1
        else:
            bad.append(r)
    XOR_LEMMA_STATS['bad_rows'] = bad
    _XOR_LEMMA[key] = bad
    return bad


def _ite_plain(values, idx_e, w):
    runs = []
    for i, v in enumerate(values):
        if not runs or runs[-1][1] != v:
            runs.append((i, v))

    def rec(lo, hi):
        if hi - lo == 1:
            return bvv(runs[lo][1], 8)
        mid = (lo + hi) // 2
        return z3.If(z3.ULT(idx_e, bvv(runs[mid][0], w)), rec(lo, mid), rec(mid, hi))
    return rec(0, len(runs))


def table_lookup(table, x):
    """table[x] for translate(): table is bytes(256) or a RowSel"""
    if isinstance(table, RowSel):
        return table.lookup(x)
    if isinstance(x, _int):
        return table[x]
    if isinstance(table, (_bytes, _bytearray)):
        return ite_table(list(table), x)
    raise EngineLimit('translate with table %r' % type(table))


# =============================================================================================
# int() on symbolic text / bytes
# =============================================================================================

class SymNegInt(object):
    """a negative (or non-representable) integer result; only (in)equality with ints is modelled.
    mag: magnitude (int / SymInt) when known (e.g. -max(9, wbits) passed to zlib)"""

    def __init__(self, mag=None):
        self.mag = mag

    def __neg__(self):
        if self.mag is None:
            raise EngineLimit('negation of an unknown negative')
        return self.mag

    def __eq__(self, o):
        if isinstance(o, _int) and o >= 0:
            return False
        if isinstance(o, SymInt):
            return False
        raise EngineLimit('comparison of symbolic negative int')

    def __ne__(self, o):
        return not self.__eq__(o)

    def __lt__(self, o):
        if isinstance(o, _int) and o >= 0:
            return True
        raise EngineLimit('comparison of symbolic negative int')

    def __gt__(self, o):
        if isinstance(o, _int) and o >= 0:
            return False
        raise EngineLimit('comparison of symbolic negative int')

    def __hash__(self):
        raise EngineLimit('hash of symbolic negative int')

    def __format__(self, spec):
        return '<symneg>'


def parse_int(seq, is_str):
    """CPython int(x) for x bytes/str with symbolic characters (base 10)."""
    items = list(seq._get())
    ws = STR_WS if is_str else BYTES_WS
    i, j = 0, len(items)
    while i < j and item_in(items[i], ws):
        i += 1
    while j > i and item_in(items[j - 1], ws):
        j -= 1
    items = items[i:j]
    neg = False
    if items and item_in(items[0], (43, 45)):
        neg = bool(SymBool(eq_term(items[0], 45)))
        items = items[1:]
    if not items:
        raise ValueError('invalid literal for int() with base 10 (symbolic)')
    val = 0
    prev_us = True     # leading underscore not allowed
    for x in items:
        if item_in(x, (95,)):
            if prev_us:
                raise ValueError('invalid literal for int() with base 10 (symbolic)')
            prev_us = True
            continue
        if isinstance(x, _int):
            isdig = 48 <= x <= 57
        else:
            isdig = bool(SymBool(_range(SymInt.lift(x), 48, 57)))
        if not isdig:
            if is_str and not isinstance(x, _int) and x.w > 7:
                # non-ASCII unicode digits are accepted by int(str): only U+FFFD/ASCII can occur after
                # ascii/replace decoding; anything else is beyond the model
                if not Ctx.cur.branch(z3.Or(z3.ULT(x.e, bvv(128, x.w)), x.e == bvv(0xFFFD, x.w))):
                    # int(str) accepts every Unicode decimal digit (category Nd): value from CPython's unicode database
                    dv = uni_table('decimal-value', _decimal_value, 4, x)
                    if bool(dv <= 9):
                        prev_us = False
                        val = val * 10 + dv
                        continue
            raise ValueError('invalid literal for int() with base 10 (symbolic)')
        prev_us = False
        d = (SymInt.lift(x) - 48) if not isinstance(x, _int) else x - 48
        if isinstance(d, SymInt):
            d = SymInt(z3.Extract(3, 0, d.e), 4)
        val = val * 10 + d
    if prev_us:
        raise ValueError('invalid literal for int() with base 10 (symbolic)')
    if neg:
        if isinstance(val, _int):
            return -val
        if bool(val == 0):
            return 0
        return SymNegInt()
    return val


# =============================================================================================
# byte strings of SYMBOLIC LENGTH with abstract content (C03: Frame.build for every payload length at once)
# =============================================================================================
# The content is one abstract block `src` of `symlen` bytes; what the code does to it is recorded per residue class
# (index mod 4): which residue of the source it now holds and the translate tables applied, in order.  That is all
# mask_payload's slicing (`data[r::4] = data[r::4].translate(t)`) can do to it; anything else is an EngineLimit.

class SymLenBase(object):
    _sx_abstract_buffer = True
    pass


def _ident_lanes():
    return [(r, ()) for r in range(4)]


class SymLenBytes(SymLenBase):
    """immutable: prefix items ++ abstract block"""

    def __init__(self, symlen, src, lanes=None, prefix=()):
        self.symlen = symlen            # SymInt: length of the abstract block
        self.src = src
        self.lanes = list(lanes) if lanes is not None else _ident_lanes()
        self.prefix = list(prefix)

    @property
    def _sx_symlen(self):
        return self.symlen + len(self.prefix) if self.prefix else self.symlen

    def __len__(self):
        raise EngineLimit('native len() of a symbolic-length byte string')

    def __bool__(self):
        return True if self.prefix else bool(self.symlen != 0)

    def __radd__(self, o):
        if isinstance(o, (SymSeq, _bytes, _bytearray, _memoryview)):
            if isinstance(o, (_bytearray, SymByteArray)):
                raise EngineLimit('bytearray + symbolic-length bytes')
            return SymLenBytes(self.symlen, self.src, self.lanes, items_of(o) + self.prefix)
        return NotImplemented

    def __add__(self, o):
        if isinstance(o, (SymSeq, _bytes)) and len(items_of(o)) == 0:
            return self
        raise EngineLimit('symbolic-length bytes + bytes')

    def __hash__(self):
        return id(self)

    def __repr__(self):
        return '<SymLenBytes %d+L>' % len(self.prefix)


class SymLenByteArray(SymLenBase):
    """mutable: prefix items ++ abstract block; the object mask_payload works on.  `lanes[j]` describes the bytes of
    the block at block offsets j, j+4, ...: (source block residue, translate tables applied)"""

    def __init__(self, symlen, src, lanes=None, prefix=()):
        self.symlen = symlen
        self.src = src
        self.lanes = list(lanes) if lanes is not None else _ident_lanes()
        self.prefix = list(prefix)

    @property
    def _sx_symlen(self):
        return self.symlen + len(self.prefix) if self.prefix else self.symlen

    def __len__(self):
        raise EngineLimit('native len() of a symbolic-length bytearray')

    def __bool__(self):
        return True if self.prefix else bool(self.symlen != 0)

    @staticmethod
    def _lane(k):
        if isinstance(k, slice) and k.stop is None and k.step == 4 and k.start in (None, 0, 1, 2, 3):
            return k.start or 0
        raise EngineLimit('symbolic-length bytearray indexed with %r (only [r::4] is modelled)' % (k,))

    def __getitem__(self, k):
        r = self._lane(k)
        j = (r - len(self.prefix)) % 4
        return _SymLenLane(self.src, self.lanes[j], self.prefix[r::4])

    def __setitem__(self, k, v):
        r = self._lane(k)
        if not isinstance(v, _SymLenLane) or v.src is not self.src:
            raise EngineLimit('symbolic-length bytearray slice assigned from %r' % type(v).__name__)
        if len(self.prefix[r::4]) != len(v.pre):
            # (CPython raises ValueError when the two extended slices differ in size; not needed so far)
            raise EngineLimit('symbolic-length bytearray slice assigned from a lane of another shape')
        self.prefix[r::4] = v.pre
        self.lanes[(r - len(self.prefix)) % 4] = v.lane
    __hash__ = None


class _SymLenLane(SymLenBase):
    """copy of every 4th byte of a symbolic-length buffer"""

    def __init__(self, src, lane, pre):
        self.src = src
        self.lane = lane            # (source block residue, tables applied)
        self.pre = list(pre)        # the explicit (prefix) items of this lane

    def translate(self, table):
        if not (isinstance(table, RowSel) or (isinstance(table, (_bytes, SymSeq)) and len(items_of(table)) == 256)):
            raise EngineLimit('translate table of unexpected shape')
        lane = (self.lane[0], self.lane[1] + (table,))
        return _SymLenLane(self.src, lane, [lane_apply((0, (table,)), x) for x in self.pre])


def lane_apply(lane, x):
    """the byte that a lane's tables turn byte x into"""
    for t in lane[1]:
        if isinstance(t, RowSel):
            x = t.lookup(x)
        else:
            x = ite_table(items_of(t), SymInt.lift(x))
    return x
