"""
symlomond.replay -- run one concrete scenario against the PRISTINE, un-instrumented lomond.

  python -m symlomond.replay <file.json>          exit 1 + message if the violation reproduces, 0 if not
  python -m symlomond.replay --xval <file.json>   compare observables of sampled symbolic paths

The harness function is the same one the explorer ran; the Ctx is in concrete mode (inputs come from
the model, no solver), and the library is the real package imported from $LOMOND_SRC/.. with only the
environment (socket/select/time/urandom/...) replaced by the same stubs.
"""
import json
import os
import sys


def setup():
    from . import env
    env.install_pristine()


def run_one(body, model):
    from . import engine
    from .runner import load_func
    fn = load_func(body['module'], body['func'])
    c = engine.Ctx(concrete=model)
    engine.Ctx.cur = c
    try:
        out = fn(c, body['params'])
    except engine.Violation as v:
        return ('violation', v.what, v.sig)
    except engine.PathAbort as e:
        return ('abort', str(e), None)
    return ('ok', out, None)


def main(argv):
    setup()
    if argv and argv[0] == '--xval':
        body = json.load(open(argv[1]))
        ok = 0
        bad = []
        for s in body['samples']:
            st, out, _ = run_one(body, s['model'])
            if st == 'ok' and out is not None and json.loads(json.dumps(out.get('observe'), default=str)) == s['observe']:
                ok += 1
            else:
                bad.append(dict(model=s['model'], symbolic=s['observe'],
                                pristine=(out.get('observe') if st == 'ok' and out else [st, str(out)])))
        print('XVAL ' + json.dumps(dict(ok=ok, mismatches=bad[:3]), default=str))
        return 0
    body = json.load(open(argv[0]))
    st, out, sig = run_one(body, body['model'])
    if st == 'violation':
        print('REPRODUCED on pristine code: %s' % out)
        print('  inputs: %s' % json.dumps(body['model'], default=str)[:1500])
        return 1
    print('not reproduced (%s): %s' % (st, str(out)[:500]))
    return 0


if __name__ == '__main__':
    try:
        rc = main(sys.argv[1:])
    except BaseException as e:
        import traceback
        traceback.print_exc()
        rc = 3
    sys.exit(rc)
