"""
symlomond.refmodel -- independent reference models written against the RFCs (not against lomond).

They run on the same symbolic items as the implementation, under the same explorer, so the
implementation and the reference fork jointly and the final comparison is one query per path.

  ref_receive(items)         RFC 6455 section 5 receiver (client side): messages + first violation
  decode_client_frames(items) RFC 6455 section 5.2 server-side decoder for what the client wrote
  CLOSE code classes          RFC 6455 section 7.4
"""
import z3
from .engine import bvv

from .engine import Ctx, SymInt, SymBool, eq_term
from .symdata import eq_items, utf8_valid_term, item_in

TEXT, BINARY, CLOSE, PING, PONG, CONT = 1, 2, 8, 9, 10, 0
KIND = {TEXT: 'text', BINARY: 'binary', CLOSE: 'close', PING: 'ping', PONG: 'pong'}


def _bit(x, n):
    return (x >> n) & 1


def _u(items):
    v = 0
    for b in items:
        if isinstance(v, int) and v == 0:
            v = b
        else:
            v = (SymInt.lift(v) << 8) | b
    return v


def _t(x):
    """python bool from int/SymInt/SymBool truthiness (forks)"""
    return bool(x)


def close_code_class(code):
    """'invalid' / 'valid' / 'dontcare' per RFC 6455 section 7.4 (forks on a symbolic code)"""
    def rng(lo, hi):
        return _t(code >= lo) and _t(code <= hi)
    if rng(0, 999) or rng(1004, 1006) or rng(1015, 2999):
        return 'invalid'
    if rng(1000, 1003) or rng(1007, 1011) or rng(3000, 4999):
        return 'valid'
    return 'dontcare'      # 1012-1014 (IANA, after RFC 6455) and >= 5000 (undefined)


class RefResult(object):
    def __init__(self):
        self.msgs = []          # (kind, payload_items) | ('close', code|None, reason_items)  + end offset
        self.ends = []          # stream offset at which each message completes
        self.viol = None        # dict(kind, earliest, deadline|None) -- first violation
        self.dontcare = False   # expectation undefined from here (after server Close / dontcare close code)
        self.partial = False    # stream ends inside a (so far conforming) frame
        self.server_close_at = None   # index in msgs of the server's Close
        self.frames = 0
        self.classes = set()


def ref_receive(items, rsv1_ok=False, stop_after_close=True):
    """RFC 6455 receiver over a (symbolic) byte stream that follows the handshake.

    Violation record: earliest = number of stream bytes after which the stream is certainly
    invalid; deadline = number of bytes after which the violating frame (message, for message-level
    rules) is complete, or None if it never completes inside the stream."""
    r = RefResult()
    n = len(items)
    pos = 0
    frag = None            # [opcode, [payload items], any_rsv1]
    while True:
        start = pos
        if pos == n:
            return r
        if pos + 2 > n:
            r.partial = True
            return r
        b0, b1 = items[pos], items[pos + 1]
        b0 = SymInt.lift(b0)
        b1 = SymInt.lift(b1)
        br = Ctx.cur.branch
        B0, B1 = b0.at(8), b1.at(8)
        bv = lambda x: bvv(x, 8)
        fin_c = (B0 & 0x80) != 0
        rsv1_c = (B0 & 0x40) != 0
        rsv23_c = (B0 & 0x30) != 0
        op_e = B0 & 0x0F
        mask_c = (B1 & 0x80) != 0
        l7_e = B1 & 0x7F
        long_c = z3.UGE(l7_e, bv(126))
        ctrl_c = z3.UGE(op_e, bv(8))
        hviol = None
        r.frames += 1
        if br(z3.Or(rsv23_c, z3.And(rsv1_c, z3.BoolVal(not rsv1_ok)))):
            hviol = 'reserved bit'
        elif br(z3.Or(z3.And(z3.UGE(op_e, bv(3)), z3.ULE(op_e, bv(7))), z3.UGE(op_e, bv(11)))):
            hviol = 'reserved opcode'
        elif br(z3.And(ctrl_c, z3.Not(fin_c))):
            hviol = 'fragmented control frame'
        elif br(z3.And(ctrl_c, long_c)):
            # extended length form on a control frame: a violation iff the *actual* length exceeds 125
            # (a non-minimal encoding of a length <= 125 is tolerated, as for data frames -- C01)
            lf = 2 if br(l7_e == 126) else 8
            if start + 2 + lf > n:
                r.partial = True
                return r
            ln = SymInt.lift(_u(items[start + 2:start + 2 + lf]))
            if br(z3.UGT(ln.at(70), bvv(125, 70))):
                total = ln.at(70) + z3.If(mask_c, bvv(6 + lf, 70), bvv(2 + lf, 70))
                complete = br(z3.ULE(total, bvv(n - start, 70)))
                r.viol = dict(kind='control frame > 125 bytes', earliest=start + 2 + lf, complete=complete,
                              frame_start=start)
                return r
            if br(mask_c):
                hviol = 'masked frame'
        elif br(mask_c):
            hviol = 'masked frame'
        elif br(z3.And(op_e == 0, z3.BoolVal(frag is None))):
            hviol = 'continuation with nothing to continue'
        elif br(z3.And(z3.Or(op_e == 1, op_e == 2), z3.BoolVal(frag is not None))):
            hviol = 'new data frame inside fragmented message'
        elif br(z3.And(rsv1_c, z3.Or(op_e == 0, ctrl_c))):
            hviol = 'rsv1 on continuation/control frame'
        l7 = b1 & 127
        long_form = 0
        if hviol is not None:
            # violation visible in the first two bytes.  Does the violating frame complete inside
            # the stream?  (one fork; the exact length is irrelevant)
            complete = False
            if not br(long_c):
                total = z3.ZeroExt(8, l7_e) + z3.If(mask_c, bvv(6, 16), bvv(2, 16))
                complete = br(z3.ULE(total, bvv(n - start, 16)))
            else:
                lf = 2 if br(l7_e == 126) else 8
                if start + 2 + lf <= n:
                    ln = SymInt.lift(_u(items[start + 2:start + 2 + lf]))
                    total = ln.at(70) + z3.If(mask_c, bvv(6 + lf, 70), bvv(2 + lf, 70))
                    complete = br(z3.ULE(total, bvv(n - start, 70)))
            r.viol = dict(kind=hviol, earliest=start + 2, complete=complete, frame_start=start)
            return r
        fin = br(fin_c)
        rsv1 = br(rsv1_c)
        opc = None
        for k in (TEXT, BINARY, CONT, PING, PONG, CLOSE):
            if br(op_e == k):
                opc = k
                break
        hdr = 2
        if br(l7_e == 126):
            long_form = 2
        elif br(l7_e == 127):
            long_form = 8
        if long_form:
            if pos + 2 + long_form > n:
                r.partial = True
                return r
            length = _u(items[pos + 2:pos + 2 + long_form])
            hdr = 2 + long_form
            if long_form == 8 and _t(SymInt.lift(length) >= (1 << 63)):
                # such a frame can never complete: the obligation starts when its header is complete
                r.viol = dict(kind='length >= 2^63', earliest=start + hdr, complete=True, frame_start=start)
                return r
        else:
            length = l7
        # conforming header; resolve the length against what is left in the stream
        avail = n - (start + hdr)
        plen = None
        for cand in range(0, avail + 1):
            if _t(SymInt.lift(length) == cand) if not isinstance(length, int) else length == cand:
                plen = cand
                break
        if plen is None:
            # frame does not complete inside the stream
            r.partial = True
            if opc == TEXT or (opc == CONT and frag is not None and frag[0] == TEXT):
                if not (rsv1_ok and (rsv1 if opc == TEXT else frag[2])):
                    # fail-fast: the part of a text payload that did arrive may already be doomed
                    got = (frag[1] if opc == CONT else []) + items[start + hdr:]
                    offs = (frag[3] if opc == CONT else []) + list(range(start + hdr + 1, n + 1))
                    e = utf8_doom_offset(got, offs)
                    if e is not None:
                        r.viol = dict(kind='invalid utf-8 in text', earliest=e, complete=False,
                                      frame_start=start, utf8=True)
            return r
        payload = items[start + hdr:start + hdr + plen]
        pos = start + hdr + plen
        r.classes.add('len%d' % (0 if long_form == 0 else long_form))
        if opc >= 8:
            if opc == CLOSE:
                if plen == 1:
                    r.viol = dict(kind='1-byte close payload', earliest=pos, complete=True, frame_start=start)
                    return r
                if plen == 0:
                    r.msgs.append(('close', None, []))
                    r.ends.append(pos)
                else:
                    code = _u(payload[:2])
                    reason = payload[2:]
                    cls = close_code_class(SymInt.lift(code))
                    if cls == 'invalid':
                        r.viol = dict(kind='reserved close code', earliest=pos, complete=True, frame_start=start)
                        return r
                    if not Ctx.cur.branch(utf8_valid_term(reason)):
                        r.viol = dict(kind='invalid utf-8 in close reason', earliest=pos, complete=True,
                                      frame_start=start)
                        return r
                    if cls == 'dontcare':
                        r.dontcare = True
                        return r
                    r.msgs.append(('close', code, reason))
                    r.ends.append(pos)
                r.server_close_at = len(r.msgs) - 1
                r.classes.add('close')
                if stop_after_close:
                    r.dontcare = True      # frames after a server Close: undefined (conforming servers send none)
                    return r
            else:
                r.msgs.append((KIND[opc], payload))
                r.ends.append(pos)
                r.classes.add(KIND[opc])
                if frag is not None:
                    r.classes.add('control-between-fragments')
            continue
        # data frame
        offs = list(range(start + hdr + 1, pos + 1))
        if opc in (TEXT, BINARY):
            frag = [opc, list(payload), rsv1, offs]
            if not fin:
                r.classes.add('fragmented')
        else:
            frag[1].extend(payload)
            frag[3].extend(offs)
        if frag[0] == TEXT and not (rsv1_ok and frag[2]):
            e = utf8_doom_offset(frag[1], frag[3])
            if e is not None:
                r.viol = dict(kind='invalid utf-8 in text', earliest=e, complete=bool(fin),
                              frame_start=start, utf8=True)
                return r
        if fin:
            if frag[0] == TEXT and not (rsv1_ok and frag[2]):
                if not Ctx.cur.branch(utf8_valid_term(frag[1])):
                    # truncated sequence at end of message
                    r.viol = dict(kind='truncated utf-8 at end of text', earliest=start + hdr, ff_limit=pos, complete=True,
                                  frame_start=start, utf8=True)
                    return r
            r.msgs.append((KIND[frag[0]], frag[1]) if not frag[2] else (KIND[frag[0]] + '-compressed', frag[1]))
            r.ends.append(pos)
            r.classes.add(KIND[frag[0]])
            frag = None
    return r


def utf8_doom_offset(items, offs):
    """If some prefix of the byte items can no longer be extended to well-formed UTF-8, return
    the stream offset (offs[i] = number of stream bytes consumed once items[i] has arrived) at
    which that becomes certain, else None.  (forks per byte)"""
    need, lo, hi = 0, 0x80, 0xBF
    for i, x in enumerate(items):
        b = SymInt.lift(x)
        if need == 0:
            if _t(b <= 0x7F):
                continue
            if _t(b >= 0xC2) and _t(b <= 0xDF):
                need, lo, hi = 1, 0x80, 0xBF
            elif _t(b == 0xE0):
                need, lo, hi = 2, 0xA0, 0xBF
            elif _t(b == 0xED):
                need, lo, hi = 2, 0x80, 0x9F
            elif _t(b >= 0xE1) and _t(b <= 0xEF):
                need, lo, hi = 2, 0x80, 0xBF
            elif _t(b == 0xF0):
                need, lo, hi = 3, 0x90, 0xBF
            elif _t(b == 0xF4):
                need, lo, hi = 3, 0x80, 0x8F
            elif _t(b >= 0xF1) and _t(b <= 0xF3):
                need, lo, hi = 3, 0x80, 0xBF
            else:
                return offs[i]
        else:
            if _t(b >= lo) and _t(b <= hi):
                need -= 1
                lo, hi = 0x80, 0xBF
            else:
                return offs[i]
    return None


# =============================================================================================
# what the client wrote: RFC 6455 section 5.2 decoder (server side)
# =============================================================================================

class WireError(Exception):
    pass


def decode_client_frames(items, strict=True):
    """Decode a byte term written by the client into frames.

    returns list of dict(fin, rsv1, rsv2, rsv3, opcode (int), payload (unmasked items), key, minimal)
    raises WireError when the bytes are not a sequence of whole, masked frames."""
    out = []
    n = len(items)
    pos = 0
    while pos < n:
        if pos + 2 > n:
            raise WireError('torn frame header at offset %d' % pos)
        b0 = SymInt.lift(items[pos])
        b1 = SymInt.lift(items[pos + 1])
        fin = _t(_bit(b0, 7))
        rsv1 = _t(_bit(b0, 6))
        rsv2 = _t(_bit(b0, 5))
        rsv3 = _t(_bit(b0, 4))
        op = (b0 & 15)
        opcode = op.concretize() if isinstance(op, SymInt) else op
        mask = _t(_bit(b1, 7))
        l7 = b1 & 127
        l7 = l7.concretize(limit=200) if isinstance(l7, SymInt) else l7
        hdr = 2
        minimal = True
        if l7 == 126:
            if pos + 4 > n:
                raise WireError('torn extended length')
            length = _u(items[pos + 2:pos + 4])
            hdr = 4
        elif l7 == 127:
            if pos + 10 > n:
                raise WireError('torn extended length')
            length = _u(items[pos + 2:pos + 10])
            hdr = 10
        else:
            length = l7
        if isinstance(length, SymInt):
            length = length.concretize(limit=1 << 20)
        if l7 == 126 and length < 126:
            minimal = False
        if l7 == 127 and length < 65536:
            minimal = False
        if not mask:
            raise WireError('client frame without MASK bit at offset %d' % pos)
        if pos + hdr + 4 + length > n:
            raise WireError('torn frame: header announces %d payload bytes, %d present'
                            % (length, n - pos - hdr - 4))
        key = items[pos + hdr:pos + hdr + 4]
        body = items[pos + hdr + 4:pos + hdr + 4 + length]
        payload = []
        for i, x in enumerate(body):
            k = key[i % 4]
            if isinstance(x, int) and isinstance(k, int):
                payload.append(x ^ k)
            else:
                e = z3.simplify(SymInt.lift(x).at(8) ^ SymInt.lift(k).at(8))
                payload.append(e.as_long() if z3.is_bv_value(e) else SymInt(e, 8))
        out.append(dict(fin=fin, rsv1=rsv1, rsv2=rsv2, rsv3=rsv3, opcode=opcode, payload=payload,
                        key=key, minimal=minimal, length=length, start=pos, end=pos + hdr + 4 + length))
        pos += hdr + 4 + length
    return out
