"""
symlomond.engine -- path-based symbolic execution core (z3 decides every branch).

A *harness* is a Python callable ``run(ctx)`` that builds symbolic inputs, drives the real
(instrumented) lomond code and finally asks ``ctx.prove(...)`` for its property.  The explorer
re-executes the harness once per feasible path (depth-first over the decision tree; the
feasibility of both sides of every branch is decided by z3 under the current path condition).

Exit discipline used by the callers:  every path explored + every prove() unsat  -> holds;
a sat prove() -> counterexample (model returned, to be replayed on pristine code);
unknown / EngineLimit / budget -> inconclusive.
"""
import os
import sys
import time
import z3

MAXW = 96          # widest bit-vector the engine will build (lomond's widest value: 64-bit length)
QUERY_TIMEOUT_MS = int(os.environ.get('SX_QUERY_TIMEOUT_MS', '90000'))
INCR_TIMEOUT_MS = int(os.environ.get('SX_INCR_TIMEOUT_MS', '4000'))   # first (incremental) attempt of arithmetic queries
XVAL_STRIDE = 0
XVAL_SEED = 0
CONTINUE_SIGS = set()   # violations with these signatures (known findings) do not stop the exploration
LOGIC = os.environ.get('SX_LOGIC', 'QF_BV')   # harnesses using reals set engine.LOGIC = None


_BVV = {}
_z3_BitVecVal = z3.BitVecVal


def bvv(v, w):
    """cached bit-vector numeral (the z3 python wrapper spends ~40 us per BitVecVal)"""
    k = (v, w)
    r = _BVV.get(k)
    if r is None:
        r = _BVV[k] = _z3_BitVecVal(v, w)
    return r


class PathAbort(BaseException):
    """Path is infeasible / pruned (BaseException: must not be caught by lomond's `except Exception`)."""


class EngineLimit(BaseException):
    """The engine cannot represent something soundly -> inconclusive, never success or violation."""


class Violation(BaseException):
    """A prove() obligation has a counterexample on this path."""

    def __init__(self, what, model, sig=None):
        BaseException.__init__(self, what)
        self.what = what
        self.model = model
        self.sig = sig or canon_sig(what)


def canon_sig(what):
    """canonical signature of a failed obligation: the text with numbers and reprs removed"""
    import re
    s = re.sub(r"\(events .*?\)$", '', what)
    s = re.sub(r"\[.*?\]", '[]', s)
    s = re.sub(r"\d+", 'N', s)
    return s.strip()


class Ctx(object):
    cur = None

    def __init__(self, concrete=None):
        self.concrete = concrete  # dict name -> value: replay mode (no solver, pristine code)
        self.solver = z3.SolverFor(LOGIC) if LOGIC else z3.Solver()
        self.solver.set('timeout', QUERY_TIMEOUT_MS)
        self.prefix = []
        self.trace = []           # [taken, other_feasible_or_None]
        self.queries = 0
        self.prove_queries = 0
        self.fallbacks = 0        # queries decided by a fresh solver after the incremental one returned unknown
        self.t_solver = 0.0
        self.nfresh = 0
        self.nchoose = 0
        self.inputs = []          # (name, z3 const) in creation order -- for model extraction
        self.notes = {}           # per-path scratch for harness
        self.soft = []
        self.last_model = None    # a model of the current path condition (saves feasibility queries)
        self._alt_model = None    # model from a fallback solver (the incremental one returned unknown)

    # ---- per path -------------------------------------------------------------------------
    def begin_path(self, prefix):
        self.prefix = prefix
        self.trace = []
        self.nfresh = 0
        self.nchoose = 0
        self.inputs = []
        self.notes = {}
        self.soft = []
        self.last_model = None
        self.solver.push()

    def end_path(self):
        self.solver.pop()

    # ---- solver ---------------------------------------------------------------------------
    def _check(self, *extra):
        self.queries += 1
        self._alt_model = None
        t = time.time()
        if LOGIC is None and INCR_TIMEOUT_MS < QUERY_TIMEOUT_MS:
            # arithmetic harnesses (reals / integers, possibly non-linear): z3's incremental core can stall on a query that
            # a fresh solver decides in milliseconds -> short first attempt, then the same formula on fresh solvers
            self.solver.set('timeout', INCR_TIMEOUT_MS)
            try:
                r = self.solver.check(*extra)
            finally:
                self.solver.set('timeout', QUERY_TIMEOUT_MS)
        else:
            r = self.solver.check(*extra)
        why = None
        if r == z3.unknown:
            why = self.solver.reason_unknown()
            r = self._check_fresh(extra)
        self.t_solver += time.time() - t
        if r == z3.unknown:
            raise EngineLimit('solver returned unknown: %s' % why)
        return r

    def _check_fresh(self, extra):
        """The incremental solver gave up: decide the SAME formula (all assertions of the path + extra) non-incrementally --
        a fresh z3 solver (default strategy, then other seeds), then cvc5 (accepted for unsat only).  Still unknown ->
        inconclusive as before.  A sat answer leaves its model in _alt_model (read through _model())."""
        fs = list(self.solver.assertions()) + list(extra)
        per = max(1000, QUERY_TIMEOUT_MS // 3)
        for seed in (0, 7):
            s = z3.Solver()
            s.set('timeout', per)
            if seed:
                s.set('random_seed', seed)
            s.add(fs)
            r = s.check()
            if r != z3.unknown:
                self.fallbacks += 1
                if r == z3.sat:
                    self._alt_model = s.model()
                return r
        try:
            r = _cvc5_unsat(fs, per)
        except Exception:
            r = z3.unknown
        if r == z3.unsat:
            self.fallbacks += 1
        return r

    def _model(self):
        return self._alt_model if self._alt_model is not None else self.solver.model()

    # ---- harness inputs (symbolic in exploration, concrete in replay) --------------------
    def byte(self, name):
        if self.concrete is not None:
            return int(self.concrete.get(name, 0)) & 0xFF
        return SymInt(self.fresh_bv(name, 8), 8)

    def int(self, name, w):
        if self.concrete is not None:
            return int(self.concrete.get(name, 0)) & ((1 << w) - 1)
        return SymInt(self.fresh_bv(name, w), w)

    def boolean(self, name):
        if self.concrete is not None:
            return bool(self.concrete.get(name, False))
        return SymBool(self.fresh_bool(name))

    def real(self, name):
        if self.concrete is not None:
            fr = self.concrete.get(name + '#frac')
            if fr is not None:
                return Q(fr)
            return Q(self.concrete.get(name, 0))
        return SymReal(self.fresh_real(name))

    def fresh_bv(self, name, w):
        self.nfresh += 1
        v = z3.BitVec('%s' % name, w)
        self.inputs.append((name, v))
        return v

    def fresh_bool(self, name):
        v = z3.Bool(name)
        self.inputs.append((name, v))
        return v

    def fresh_real(self, name):
        v = z3.Real(name)
        self.inputs.append((name, v))
        return v

    def assume(self, cond):
        cond = _b(cond)
        if self.concrete is not None:
            if not z3.is_true(z3.simplify(cond)):
                raise PathAbort('replayed values do not satisfy a harness assumption')
            return
        self.solver.add(cond)
        if self._check() != z3.sat:
            raise PathAbort('assumption infeasible')
        self.last_model = self._model()

    def branch(self, cond):
        """cond: z3 Bool -> python bool; forks."""
        cond = z3.simplify(cond)
        if z3.is_true(cond):
            return True
        if z3.is_false(cond):
            return False
        if self.concrete is not None:
            raise EngineLimit('symbolic condition reached in concrete replay')
        i = len(self.trace)
        if i < len(self.prefix):
            taken = self.prefix[i]
            self.trace.append((taken, None))
            self.solver.add(cond if taken else z3.Not(cond))
            self.last_model = None
            return taken
        mv = None
        if self.last_model is not None:
            try:
                ev = self.last_model.eval(cond, model_completion=True)
                mv = True if z3.is_true(ev) else (False if z3.is_false(ev) else None)
            except z3.Z3Exception:
                mv = None
        if mv is True:
            can_t = True
            can_f = self._check(z3.Not(cond)) == z3.sat
        elif mv is False:
            can_f = True
            can_t = self._check(cond) == z3.sat
            if can_t:
                self.last_model = self._model()
        else:
            can_t = self._check(cond) == z3.sat
            if can_t:
                self.last_model = self._model()
            can_f = self._check(z3.Not(cond)) == z3.sat
            if not can_t and can_f:
                self.last_model = self._model()
        if can_t:
            self.trace.append((True, can_f))
            if can_f:
                self.solver.add(cond)
            return True
        elif can_f:
            self.trace.append((False, False))
            return False
        raise PathAbort('infeasible path')

    def choose(self, n, name='ch', raw_name=False):
        """Nondeterministic choice in range(n): a fresh solver variable, balanced case-split.
        raw_name: the caller guarantees that `name` is unique on the path (used when the variable must be
        identified by a program location rather than by its position in the run, e.g. scheduler decisions)."""
        if n <= 1:
            return 0
        w = max(1, (n - 1).bit_length())
        self.nchoose += 1
        vname = name if raw_name else '%s#%d' % (name, self.nchoose)
        if self.concrete is not None:
            return min(n - 1, int(self.concrete.get(vname, 0)))
        v = self.fresh_bv(vname, w)
        if n < (1 << w):
            self.solver.add(z3.ULT(v, bvv(n, w)))
        return self.split_value(v, w, 0, n - 1)

    def split_value(self, e, w, lo=0, hi=None):
        """concretise bit-vector e by balanced binary case-splitting (each split is a branch
        decided by z3, so infeasible halves are pruned and the subtree can be sharded)"""
        if hi is None:
            hi = (1 << w) - 1
        while lo < hi:
            mid = (lo + hi) // 2
            if self.branch(z3.ULE(e, bvv(mid, w))):
                hi = mid
            else:
                lo = mid + 1
        return lo

    def feasible(self, cond):
        if self.concrete is not None:
            return z3.is_true(z3.simplify(_b(cond)))
        return self._check(_b(cond)) == z3.sat

    def prove(self, cond, what, sig=None):
        """Obligation: cond holds for every value on this path. sat(not cond) -> Violation."""
        cond = z3.simplify(_b(cond))
        self.prove_queries += 1
        if z3.is_true(cond):
            return
        if self.concrete is not None:
            if z3.is_false(cond):
                raise Violation(what, dict(self.concrete), sig)
            raise EngineLimit('symbolic obligation in concrete replay')
        r = self._check(z3.Not(cond))
        if r == z3.sat:
            if sig is not None and _sig_known(sig):
                # a recorded finding: report it, then go on under the assumption that it does not occur, so that the
                # obligations after it on this path are still decided
                self.soft.append((what, self.model_of_negation(cond), self.notes.get('scenario'), sig))
                self.assume(cond)
                return
            raise Violation(what, self.model_of_negation(cond), sig)

    def model_of_negation(self, cond):
        self.solver.push()
        try:
            self.solver.add(z3.Not(cond))
            return self.model()
        finally:
            self.solver.pop()

    def fail(self, what, sig=None, soft=False):
        """Unconditional violation on this (feasible) path.  soft=True: if the signature is a recorded finding, report it
        and return, so that independent checks after it on the same path are still evaluated."""
        self.prove_queries += 1
        if self.concrete is not None:
            raise Violation(what, dict(self.concrete), sig)
        if self._check() == z3.sat:
            if soft and sig is not None and _sig_known(sig):
                self.soft.append((what, self.model(), self.notes.get('scenario'), sig))
                return
            raise Violation(what, self.model(), sig)
        raise PathAbort('infeasible at fail')

    def model(self):
        if self.concrete is not None:
            return dict(self.concrete)
        if self._check() != z3.sat:
            raise PathAbort('no model')
        m = self._model()
        out = {}
        for name, v in self.inputs:
            val = m.eval(v, model_completion=True)
            if z3.is_bv_value(val):
                out[name] = val.as_long()
            elif z3.is_true(val):
                out[name] = True
            elif z3.is_false(val):
                out[name] = False
            else:
                try:
                    out[name] = float(val.as_fraction())
                    out[name + '#frac'] = str(val.as_fraction())
                except Exception:
                    out[name] = str(val)
        return out

    def min_value(self, e, w):
        """smallest feasible unsigned value of bit-vector e under the path condition (bisect)."""
        lo, hi = 0, (1 << w) - 1
        while lo < hi:
            mid = (lo + hi) // 2
            if self._check(z3.ULE(e, bvv(mid, w))) == z3.sat:
                hi = mid
            else:
                lo = mid + 1
        return lo


def _cvc5_unsat(fs, timeout_ms):
    """unsat / unknown from cvc5 (python wheel, if the overlay venv has it) on the SMT-LIB2 rendering of fs"""
    import cvc5
    s = z3.Solver()
    s.add(fs)
    txt = '(set-logic ALL)\n' + s.to_smt2()
    slv = cvc5.Solver()
    slv.setOption('tlimit-per', str(int(timeout_ms)))
    ip = cvc5.InputParser(slv)
    ip.setStringInput(cvc5.InputLanguage.SMT_LIB_2_6, txt, 'q')
    sm = ip.getSymbolManager()
    res = None
    while True:
        cmd = ip.nextCommand()
        if cmd.isNull():
            break
        out = cmd.invoke(slv, sm)
        if 'check-sat' in cmd.getCommandName():
            res = str(out).strip()
    return z3.unsat if res == 'unsat' else z3.unknown


def ctx():
    return Ctx.cur


def _b(x):
    if isinstance(x, SymBool):
        return x.e
    if isinstance(x, bool):
        return z3.BoolVal(x)
    return x


# =============================================================================================
# symbolic scalars
# =============================================================================================

class SymBool(object):
    __slots__ = ('e',)

    def __init__(self, e):
        self.e = e

    def __bool__(self):
        return Ctx.cur.branch(self.e)

    def __and__(self, o):
        return SymBool(z3.And(self.e, _b(o)))
    __rand__ = __and__

    def __or__(self, o):
        return SymBool(z3.Or(self.e, _b(o)))
    __ror__ = __or__

    def __invert__(self):
        return SymBool(z3.Not(self.e))

    def __eq__(self, o):
        return SymBool(self.e == _b(o))

    def __ne__(self, o):
        return SymBool(self.e != _b(o))

    def __hash__(self):
        return hash(bool(self))

    def __repr__(self):
        return '<symbool>'

    def __int__(self):
        return int(bool(self))

    __index__ = __int__


def _ext(e, fw, tw):
    if fw == tw:
        return e
    if fw > tw:
        raise AssertionError('narrowing')
    return z3.ZeroExt(tw - fw, e)


class SymInt(object):
    """Non-negative Python int represented as an unsigned bit-vector of tracked width."""
    __slots__ = ('e', 'w')

    def __init__(self, e, w):
        if w > MAXW:
            raise EngineLimit('bit-vector width %d exceeds engine limit' % w)
        self.e = e
        self.w = w

    @staticmethod
    def lift(x, w=None):
        if isinstance(x, SymInt):
            return x
        if isinstance(x, SymBool):
            return SymInt(z3.If(x.e, bvv(1, 1), bvv(0, 1)), 1)
        if isinstance(x, bool):
            x = int(x)
        if isinstance(x, int):
            if x < 0:
                raise EngineLimit('negative integer in symbolic arithmetic')
            ww = max(1, x.bit_length())
            return SymInt(bvv(x, ww), ww)
        raise TypeError('cannot lift %r' % type(x))

    def at(self, w):
        return _ext(self.e, self.w, w)

    def _bin(self, o):
        o = SymInt.lift(o)
        w = max(self.w, o.w)
        return o, w

    # ---- arithmetic -----------------------------------------------------------------------
    def __add__(self, o):
        if isinstance(o, (SymReal, float)):
            return NotImplemented
        o, w = self._bin(o)
        return SymInt(self.at(w + 1) + o.at(w + 1), w + 1)
    __radd__ = __add__

    def __sub__(self, o):
        if isinstance(o, (SymReal, float)):
            return NotImplemented
        o, w = self._bin(o)
        if Ctx.cur.branch(z3.ULT(self.at(w), o.at(w))):
            raise EngineLimit('negative result of symbolic subtraction')
        return SymInt(self.at(w) - o.at(w), w)

    def __rsub__(self, o):
        return SymInt.lift(o).__sub__(self)

    def __mul__(self, o):
        if not isinstance(o, int) or isinstance(o, bool):
            if isinstance(o, (SymReal, float)):
                return NotImplemented
            raise EngineLimit('symbolic * symbolic')
        if o < 0:
            raise EngineLimit('negative multiplier')
        w = self.w + max(1, o.bit_length())
        return SymInt(self.at(w) * bvv(o, w), w)
    __rmul__ = __mul__

    def __floordiv__(self, o):
        if not isinstance(o, int) or o <= 0:
            raise EngineLimit('symbolic division')
        w = max(self.w, o.bit_length())
        return SymInt(z3.UDiv(self.at(w), bvv(o, w)), w)

    def __mod__(self, o):
        if not isinstance(o, int) or o <= 0:
            raise EngineLimit('symbolic modulo')
        w = max(self.w, o.bit_length())
        return SymInt(z3.URem(self.at(w), bvv(o, w)), w)

    def __rshift__(self, n):
        if isinstance(n, SymInt):
            w = max(self.w, n.w)
            return SymInt(z3.LShR(self.at(w), n.at(w)), w)
        if n >= self.w:
            return 0
        return SymInt(z3.Extract(self.w - 1, n, self.e), self.w - n)

    def __rrshift__(self, o):
        # const >> sym   (utf8validator.decode: 0xff >> tt)
        o = SymInt.lift(o)
        w = max(self.w, o.w)
        return SymInt(z3.LShR(o.at(w), self.at(w)), w)

    def __lshift__(self, n):
        if isinstance(n, SymInt):
            raise EngineLimit('symbolic shift amount')
        if n == 0:
            return self
        w = self.w + n
        return SymInt(z3.Concat(self.e, bvv(0, n)), w)

    def __rlshift__(self, o):
        raise EngineLimit('const << symbolic')

    def __and__(self, o):
        if isinstance(o, int) and not isinstance(o, bool):
            if o < 0:
                raise EngineLimit('negative mask')
            if o == 0:
                return 0
            w = min(self.w, o.bit_length())
            return SymInt(z3.Extract(w - 1, 0, self.e) & bvv(o & ((1 << w) - 1), w), w)
        o, w = self._bin(o)
        return SymInt(self.at(w) & o.at(w), w)
    __rand__ = __and__

    def __or__(self, o):
        o, w = self._bin(o)
        return SymInt(self.at(w) | o.at(w), w)
    __ror__ = __or__

    def __xor__(self, o):
        o, w = self._bin(o)
        return SymInt(self.at(w) ^ o.at(w), w)
    __rxor__ = __xor__

    def __neg__(self):
        from .symdata import SymNegInt
        return SymNegInt(self)

    def __pos__(self):
        return self

    # ---- comparisons ----------------------------------------------------------------------
    def _cmp(self, o, f, neg_result):
        if isinstance(o, SymReal) or isinstance(o, float):
            return NotImplemented
        if isinstance(o, int) and not isinstance(o, bool) and o < 0:
            return neg_result
        if o is None or isinstance(o, (str, bytes)):
            return NotImplemented
        try:
            o, w = self._bin(o)
        except TypeError:
            return NotImplemented
        return SymBool(f(self.at(w), o.at(w)))

    def __eq__(self, o):
        r = self._cmp(o, lambda a, b: a == b, False)
        return False if r is NotImplemented else r

    def __ne__(self, o):
        r = self._cmp(o, lambda a, b: a != b, True)
        return True if r is NotImplemented else r

    def __lt__(self, o):
        return self._cmp(o, z3.ULT, False)

    def __le__(self, o):
        return self._cmp(o, z3.ULE, False)

    def __gt__(self, o):
        return self._cmp(o, z3.UGT, True)

    def __ge__(self, o):
        return self._cmp(o, z3.UGE, True)

    def __bool__(self):
        return Ctx.cur.branch(self.e != bvv(0, self.w))

    # ---- concretisation -------------------------------------------------------------------
    def concretize(self, limit=1 << 16):
        """Case split on the value (balanced binary search over the value range; deterministic)."""
        c = Ctx.cur
        sv = z3.simplify(self.e)
        if z3.is_bv_value(sv):
            return sv.as_long()
        if c.concrete is not None:
            raise EngineLimit('symbolic value in concrete replay')
        return c.split_value(self.e, self.w)

    def __index__(self):
        return self.concretize()

    __int__ = __index__

    def __hash__(self):
        return hash(self.concretize())

    def __float__(self):
        return float(self.concretize())

    def __format__(self, spec):
        return '<sym>'

    def __repr__(self):
        return '<sym>'

    __str__ = __repr__


def sym_byte(name):
    return SymInt(Ctx.cur.fresh_bv(name, 8), 8)


def is_sym(x):
    return isinstance(x, (SymInt, SymBool, SymReal))


def eq_term(a, b):
    """z3 Bool: a == b for scalars that may be int / SymInt."""
    if isinstance(a, SymInt) or isinstance(b, SymInt):
        a = SymInt.lift(a)
        b = SymInt.lift(b)
        w = max(a.w, b.w)
        return a.at(w) == b.at(w)
    return z3.BoolVal(a == b)


# =============================================================================================
# symbolic reals (virtual clock, delays, random())
# =============================================================================================

def _r(x):
    if isinstance(x, SymReal):
        return x.e
    if isinstance(x, SymInt):
        return z3.ToReal(z3.BV2Int(x.e))
    if isinstance(x, bool):
        return z3.RealVal(int(x))
    if isinstance(x, int):
        return z3.RealVal(x)
    from fractions import Fraction
    if isinstance(x, Fraction):
        return z3.RealVal(x.numerator) / z3.RealVal(x.denominator)
    if isinstance(x, float):
        f = Fraction(x)
        return z3.RealVal(f.numerator) / z3.RealVal(f.denominator)
    raise TypeError('cannot lift %r to Real' % type(x))


from fractions import Fraction as _Fraction


class Q(_Fraction):
    """exact rational used for real-valued inputs in concrete replay: arithmetic with Python floats
    stays exact (the float is taken at its exact binary value), matching the idealised-real semantics
    of the exploration instead of re-introducing IEEE rounding at boundary values"""

    @staticmethod
    def _x(o):
        if isinstance(o, float):
            return _Fraction(o)
        return o

    def __round__(self, ndigits=None):
        r = _Fraction.__round__(self, ndigits)
        return r if ndigits is None else Q(r)

    def __add__(self, o):
        return Q(_Fraction.__add__(self, Q._x(o)))

    def __radd__(self, o):
        return Q(_Fraction.__radd__(self, Q._x(o)))

    def __sub__(self, o):
        return Q(_Fraction.__sub__(self, Q._x(o)))

    def __rsub__(self, o):
        return Q(_Fraction.__rsub__(self, Q._x(o)))

    def __mul__(self, o):
        return Q(_Fraction.__mul__(self, Q._x(o)))

    def __rmul__(self, o):
        return Q(_Fraction.__rmul__(self, Q._x(o)))

    def __truediv__(self, o):
        return Q(_Fraction.__truediv__(self, Q._x(o)))

    def __rtruediv__(self, o):
        return Q(_Fraction.__rtruediv__(self, Q._x(o)))

    def __neg__(self):
        return Q(_Fraction.__neg__(self))


class SymReal(object):
    """Idealised float: a z3 Real term (stated assumption: IEEE rounding is not modelled)."""
    __slots__ = ('e',)

    def __init__(self, e):
        self.e = e

    def __add__(self, o):
        return SymReal(self.e + _r(o))
    __radd__ = __add__

    def __sub__(self, o):
        return SymReal(self.e - _r(o))

    def __rsub__(self, o):
        return SymReal(_r(o) - self.e)

    def __mul__(self, o):
        return SymReal(self.e * _r(o))
    __rmul__ = __mul__

    def __truediv__(self, o):
        return SymReal(self.e / _r(o))

    def __rtruediv__(self, o):
        return SymReal(_r(o) / self.e)

    def __neg__(self):
        return SymReal(-self.e)

    def __lt__(self, o):
        return SymBool(self.e < _r(o))

    def __le__(self, o):
        return SymBool(self.e <= _r(o))

    def __gt__(self, o):
        return SymBool(self.e > _r(o))

    def __ge__(self, o):
        return SymBool(self.e >= _r(o))

    def __eq__(self, o):
        if o is None:
            return False
        return SymBool(self.e == _r(o))

    def __ne__(self, o):
        if o is None:
            return True
        return SymBool(self.e != _r(o))

    def __bool__(self):
        return Ctx.cur.branch(self.e != 0)

    def __hash__(self):
        raise EngineLimit('hash of symbolic real')

    def __format__(self, spec):
        return '<symreal>'

    def __repr__(self):
        return '<symreal>'

    def __float__(self):
        raise EngineLimit('float() of symbolic real')


# =============================================================================================
# explorer
# =============================================================================================

class Result(object):
    def __init__(self):
        self.paths = 0
        self.aborted = 0
        self.decisions = 0
        self.queries = 0
        self.prove_queries = 0
        self.fallbacks = 0
        self.t_solver = 0.0
        self.violations = []      # (what, model, extra)
        self.limits = []          # inconclusive reasons
        self.classes = {}         # class label -> count
        self.samples = []
        self.xval = []            # sampled (model, observable) pairs for cross-validation on pristine code
        self.wall = 0.0

    def merge(self, o):
        self.paths += o.paths
        self.aborted += o.aborted
        self.decisions += o.decisions
        self.queries += o.queries
        self.prove_queries += o.prove_queries
        self.fallbacks += getattr(o, 'fallbacks', 0)
        self.t_solver += o.t_solver
        for v in o.violations:
            if not any(x[3] == v[3] for x in self.violations):
                self.violations.append(v)
        self.limits.extend(o.limits)
        for k, v in o.classes.items():
            self.classes[k] = self.classes.get(k, 0) + v
        for s in o.samples:
            _keep_sample(self.samples, s, 8)
        for x in o.xval:
            if len(self.xval) < 80:
                self.xval.append(x)


def explore(run, stack=None, max_paths=10 ** 7, stop_on_violation=True, deadline=None, leftover=False):
    """Explore feasible paths of run(ctx) depth-first.  `stack` = list of decision prefixes whose
    subtrees are to be explored (default: the whole tree).  With leftover=True the unexplored
    prefixes are returned when max_paths is reached (used for dynamic sharding).

    run(ctx) returns an optional dict {'cls': label or [labels], 'sample': json-able}."""
    res = Result()
    c = Ctx()
    Ctx.cur = c
    stack = [[]] if stack is None else [list(p) for p in stack]
    t0 = time.time()
    while stack:
        prefix = stack.pop()
        c.begin_path(prefix)
        out = None
        status = 'ok'
        try:
            out = run(c)
        except PathAbort:
            status = 'abort'
        except Violation as v:
            status = 'violation' if not _sig_known(v.sig) else 'known'
            if not any(x[3] == v.sig for x in res.violations):
                res.violations.append((v.what, v.model, c.notes.get('scenario'), v.sig))
        except EngineLimit as e:
            status = 'limit'
            res.limits.append(str(e))
        except RecursionError as e:
            status = 'limit'
            res.limits.append('recursion: %s' % e)
        for sv in c.soft:
            if not any(x[3] == sv[3] for x in res.violations):
                res.violations.append(sv)
        decisions = [t for t, _ in c.trace]
        if status == 'ok' and not c.soft and out and 'observe' in out and XVAL_STRIDE and len(res.xval) < 8:
            import zlib as _z
            if (_z.crc32(bytes(decisions)) + XVAL_SEED) % XVAL_STRIDE == 0:
                try:
                    res.xval.append(dict(model=c.model(), observe=out['observe']))
                except (PathAbort, EngineLimit):
                    pass
        for i in range(len(prefix), len(c.trace)):
            taken, other = c.trace[i]
            if other:
                stack.append(decisions[:i] + [not taken])
        c.end_path()
        if status == 'abort':
            res.aborted += 1
        else:
            res.paths += 1
            res.decisions += len(decisions)
            if out:
                cls = out.get('cls')
                if cls is not None:
                    for k in (cls if isinstance(cls, (list, tuple, set)) else [cls]):
                        res.classes[k] = res.classes.get(k, 0) + 1
                if 'sample' in out:
                    _keep_sample(res.samples, out['sample'], 6)
        if status == 'violation' and stop_on_violation:
            break
        if res.paths + res.aborted >= max_paths:
            if not leftover and stack:
                res.limits.append('path budget %d exhausted' % max_paths)
            break
        if deadline is not None and time.time() > deadline:
            if stack:
                res.limits.append('time budget exhausted')
            break
    res.queries = c.queries
    res.prove_queries = c.prove_queries
    res.fallbacks = c.fallbacks
    res.t_solver = c.t_solver
    res.wall = time.time() - t0
    if leftover:
        return res, stack
    return res


def _sig_known(sig):
    for s in CONTINUE_SIGS:
        if s == sig or (s.endswith('*') and sig.startswith(s[:-1])):
            return True
    return False


def _keep_sample(lst, s, cap):
    """keep the `cap` most informative (longest when written out), distinct samples"""
    k = repr(s)
    for x in lst:
        if repr(x) == k:
            return
    lst.append(s)
    lst.sort(key=lambda x: -len(repr(x)))
    del lst[cap:]


_WORK = {}


def _worker(args):
    key, prefixes, budget, deadline = args
    run = _WORK[key]
    try:
        r, left = explore(run, stack=prefixes, max_paths=budget, deadline=deadline, leftover=True)
        if r.limits:
            left = []
    except BaseException as e:      # harness bug inside a worker: report as inconclusive
        import traceback
        r = Result()
        r.limits.append('worker crash: %s' % ''.join(traceback.format_exception_only(type(e), e)).strip())
        r.limits.append(traceback.format_exc()[-1500:])
        left = []
    return r, left


def explore_parallel(run, nproc=None, budget_s=None, chunk_paths=120):
    """Shard the decision tree over worker processes (fork) with dynamic re-balancing: a worker
    explores the subtrees it was given for at most `chunk_paths` paths and hands the unexplored
    prefixes back."""
    import multiprocessing as mp
    nproc = nproc or int(os.environ.get('VERIF_NPROC', '0')) or min(16, os.cpu_count() or 1)
    deadline = (time.time() + budget_s) if budget_s else None
    if nproc <= 1:
        return explore(run, deadline=deadline)
    t0 = time.time()
    res, pending = explore(run, max_paths=max(4, nproc // 2), deadline=deadline, leftover=True)
    if any(not _sig_known(v[3]) for v in res.violations) or res.limits or not pending:
        res.wall = time.time() - t0
        return res
    key = id(run)
    _WORK[key] = run
    mpctx = mp.get_context('fork')
    stop = False
    with mpctx.Pool(nproc) as pool:
        inflight = []
        while (pending or inflight) and not stop:
            # hand out work: shallow prefixes (big subtrees) first, one prefix per task while scarce
            while pending and len(inflight) < nproc * 2:
                per = max(1, min(8, len(pending) // (nproc * 2)))
                pending.sort(key=len, reverse=True)
                batch = [pending.pop() for _ in range(min(per, len(pending)))]
                starving = (len(pending) + len(inflight)) < nproc * 2
                inflight.append(pool.apply_async(
                    _worker, ((key, batch, 12 if starving else chunk_paths, deadline),)))
            done = [a for a in inflight if a.ready()]
            if not done:
                inflight[0].wait(0.005)
                continue
            for a in done:
                inflight.remove(a)
                r, left = a.get()
                res.merge(r)
                pending.extend(left)
                if r.limits or any(not _sig_known(v[3]) for v in r.violations):
                    stop = True
        if stop:
            pool.terminate()
    del _WORK[key]
    res.wall = time.time() - t0
    return res
