#!/bin/sh
# usage: tools_sweep.sh [ids...]   run every seeded change (default: all) against the quick check of the property it breaks,
# in a scratch worktree (LOMOND_SRC); prints one line per change.  /repo and evidence/ are left untouched.
cd /verif
ids="$@"
[ -z "$ids" ] && ids=$(ls seeded)
for id in $ids; do
  prop=$(echo $id | cut -c1-3)
  r=$(./tools_try_mutant_wt.sh /verif/seeded/$id/patch.diff $prop 2>&1 | grep "^MUTANT" | tail -1)
  echo "$id $r"
done
