"""Probe: tiny symbolic executor by operator overloading + z3 (DFS, re-execution)."""
import z3, time

W = 80


class Abort(BaseException):
    pass


class Ctx:
    cur = None

    def __init__(self):
        self.solver = z3.Solver()
        self.prefix = []      # decisions to replay
        self.trace = []       # decisions taken this run: (cond, taken, other_feasible)
        self.queries = 0
        self.t_solver = 0.0

    def check(self, *extra):
        self.queries += 1
        t = time.time()
        r = self.solver.check(*extra)
        self.t_solver += time.time() - t
        return r

    def branch(self, cond):
        """cond: z3 Bool. returns python bool"""
        cond = z3.simplify(cond)
        if z3.is_true(cond):
            return True
        if z3.is_false(cond):
            return False
        i = len(self.trace)
        if i < len(self.prefix):
            taken = self.prefix[i]
            self.trace.append((taken, None))
            self.solver.add(cond if taken else z3.Not(cond))
            return taken
        can_t = self.check(cond) == z3.sat
        can_f = self.check(z3.Not(cond)) == z3.sat
        if can_t:
            self.trace.append((True, can_f))
            self.solver.add(cond)
            return True
        elif can_f:
            self.trace.append((False, False))
            self.solver.add(z3.Not(cond))
            return False
        raise Abort('infeasible path')


def explore(fn, make_inputs, max_paths=10**6):
    """Run fn(*make_inputs()) over all feasible paths. fn must raise AssertionError on violation."""
    ctx = Ctx()
    Ctx.cur = ctx
    stack = [[]]
    paths = 0
    while stack:
        prefix = stack.pop()
        ctx.prefix = prefix
        ctx.trace = []
        ctx.solver.push()
        try:
            args, pre = make_inputs()
            for p in pre:
                ctx.solver.add(p)
            fn(*args)
        finally:
            pass
        # schedule alternatives
        decisions = [t for t, _ in ctx.trace]
        for i in range(len(prefix), len(ctx.trace)):
            taken, other = ctx.trace[i]
            if other:
                stack.append(decisions[:i] + [not taken])
        ctx.solver.pop()
        paths += 1
        if paths >= max_paths:
            raise RuntimeError('path budget')
    return paths, ctx


def _v(x):
    if isinstance(x, SymInt):
        return x.e
    if isinstance(x, bool):
        x = int(x)
    if isinstance(x, int):
        return z3.BitVecVal(x, W)
    raise TypeError(type(x))


class SymBool:
    def __init__(self, e):
        self.e = e

    def __bool__(self):
        return Ctx.cur.branch(self.e)


class SymInt:
    """unsigned, non-negative integers < 2**W (interval-checked)"""
    def __init__(self, e, hi):
        self.e = e
        self.hi = hi
        if hi >= 1 << (W - 1):
            raise OverflowError('engine width exceeded')

    def _hi(self, o):
        return o.hi if isinstance(o, SymInt) else int(o)

    def __rshift__(self, n):
        return SymInt(z3.LShR(self.e, _v(n)), self.hi >> n)

    def __lshift__(self, n):
        return SymInt(self.e << _v(n), self.hi << n)

    def __and__(self, o):
        return SymInt(self.e & _v(o), min(self.hi, self._hi(o)))
    __rand__ = __and__

    def __or__(self, o):
        h = max(self.hi, self._hi(o))
        return SymInt(self.e | _v(o), (1 << h.bit_length()) - 1)
    __ror__ = __or__

    def __add__(self, o):
        return SymInt(self.e + _v(o), self.hi + self._hi(o))
    __radd__ = __add__

    def __sub__(self, o):
        # caller must guarantee non-negative: checked by solver
        r = SymInt(self.e - _v(o), self.hi)
        c = Ctx.cur
        if c.check(z3.ULT(self.e, _v(o))) == z3.sat:
            raise OverflowError('possible negative')
        return r

    def __eq__(self, o):
        return SymBool(self.e == _v(o))

    def __ne__(self, o):
        return SymBool(self.e != _v(o))

    def __lt__(self, o):
        return SymBool(z3.ULT(self.e, _v(o)))

    def __le__(self, o):
        return SymBool(z3.ULE(self.e, _v(o)))

    def __gt__(self, o):
        return SymBool(z3.UGT(self.e, _v(o)))

    def __ge__(self, o):
        return SymBool(z3.UGE(self.e, _v(o)))

    def __bool__(self):
        return Ctx.cur.branch(self.e != 0)

    def concretize(self):
        """case split over all feasible values (used at __hash__/__index__)"""
        c = Ctx.cur
        assert self.hi <= 255
        for k in range(self.hi + 1):
            if c.branch(self.e == k):
                return k
        raise Abort('no value')

    def __hash__(self):
        return hash(self.concretize())

    def __index__(self):
        return self.concretize()

    __int__ = __index__


class SymBytes:
    """immutable sequence of SymInt/ints with concrete length"""
    def __init__(self, items):
        self.items = list(items)

    def __len__(self):
        return len(self.items)

    def __iter__(self):
        return iter(self.items)

    def __getitem__(self, k):
        if isinstance(k, slice):
            start, stop, step = k.start, k.stop, k.step
            if isinstance(stop, SymInt):
                n = len(self.items)
                # fork on min(stop, n)
                for cand in range(0, n + 1):
                    if cand < n:
                        if stop == cand:
                            stop = cand
                            break
                    else:
                        stop = n
                        break
            if isinstance(start, SymInt):
                start = start.concretize()
            return type(self)(self.items[slice(start, stop, step)])
        return self.items[k]

    def __bool__(self):
        return bool(self.items)

    def __eq__(self, o):
        raise NotImplementedError


class SymByteArray(SymBytes):
    def extend(self, other):
        self.items.extend(list(other))

    def __delitem__(self, k):
        del self.items[k]

    def find(self, sep):
        raise NotImplementedError
