import time, z3
import lomond.utf8validator as U
T = U.UTF8VALIDATOR_DFA_S
def mk_ite(tbl, idx, w_idx, w_val):
    # balanced ITE tree
    def rec(lo, hi):
        if hi - lo == 1:
            return z3.BitVecVal(tbl[lo], w_val)
        mid = (lo + hi) // 2
        return z3.If(z3.ULT(idx, z3.BitVecVal(mid, w_idx)), rec(lo, mid), rec(mid, hi))
    return rec(0, len(tbl))
for mode in ('array16', 'ite16'):
    t = time.time()
    b = z3.BitVec('b', 8)
    s = z3.BitVec('s', 8)
    def look(i):  # i is BV16
        if mode == 'array16':
            a = z3.K(z3.BitVecSort(16), z3.BitVecVal(0, 8))
            for k, v in enumerate(T):
                a = z3.Store(a, z3.BitVecVal(k, 16), z3.BitVecVal(v, 8))
            return z3.Select(a, i)
        return mk_ite(T, i, 16, 8)
    cls = look(z3.ZeroExt(8, b))
    nxt = look(256 + (z3.ZeroExt(8, s) << 4) + z3.ZeroExt(8, cls))
    sol = z3.Solver()
    sol.add(s == 0, nxt == 1)   # which bytes reject from state 0
    n = 0
    while sol.check() == z3.sat:
        m = sol.model(); n += 1
        sol.add(b != m[b])
    print(mode, 'reject-from-0 bytes', n, 'wall', round(time.time() - t, 2))
