from typing import List, Tuple, Optional
from lomond.frame_parser import ClientFrameParser, FrameParser
from lomond import errors
from lomond.parser import ParseError

def ref_frames(data: bytes):
    """Independent RFC6455 server->client frame decoder: list of (fin,rsv,opcode,payload) or 'ERR' marker at end"""
    out = []
    i = 0
    n = len(data)
    while True:
        if n - i < 2:
            return out
        b1 = data[i]; b2 = data[i+1]
        fin = b1 >> 7; rsv = (b1 >> 4) & 7; op = b1 & 15
        masked = b2 >> 7; ln = b2 & 127
        j = i + 2
        if ln == 126:
            if n - j < 2: return out
            ln = (data[j] << 8) | data[j+1]; j += 2
        elif ln == 127:
            if n - j < 8: return out
            ln = 0
            for k in range(8):
                ln = (ln << 8) | data[j+k]
            j += 8
            if ln > 0x7fffffffffffffff:
                out.append('ERR'); return out
        if masked:
            if n - j < 4: return out
            j += 4
        if rsv or op in (3,4,5,6,7,11,12,13,14,15) or (op >= 8 and (not fin or ln > 125)):
            out.append('ERR'); return out
        if n - j < ln:
            return out
        if masked:
            out.append('ERR'); return out
        out.append((fin, op, bytes(data[j:j+ln])))
        i = j + ln

def run_impl(data: bytes):
    p = ClientFrameParser(parse_headers=False)
    out = []
    try:
        for f in p.feed(data):
            out.append((f.fin, f.opcode, bytes(f.payload)))
    except (errors.ProtocolError, errors.CriticalProtocolError, ParseError):
        out.append('ERR')
    return out

def check(data: bytes) -> bool:
    """
    pre: 1 <= len(data) <= 4
    pre: all(b < 0x80 for b in data[2:])
    post: _
    """
    return run_impl(data) == ref_frames(data)
