import zlib
exec(open('p_sched.py').read().split("ws = WebSocket(")[0])
from lomond.compression import Deflate
ws = WebSocket('ws://example.com/')
s = WebsocketSession(ws); ws.state.session = s; s._sock = Sock()
ws.state.compression = Deflate(15, 15, False, False)
m1 = 'hello hello hello world ' * 4; m2 = 'hello hello hello world again ' * 4
def t1(): ws.send_text(m1)
def t2(): ws.send_text(m2)
src = lambda fr: open(fr.f_code.co_filename).read().splitlines()[fr.f_lineno-1]
plan = [('T1', lambda fr: fr.f_code.co_name == 'send_text' and 'send_compressed' in src(fr), 'T2')]
Sched(plan).run({'T1': t1, 'T2': t2}, 'T1')
d = zlib.decompressobj(-15); out = []
for fr in s._sock.sent:
    ln = fr[1] & 127; off = 2
    if ln == 126: ln = int.from_bytes(fr[2:4], 'big'); off = 4
    key = fr[off:off+4]; pl = bytes(b ^ key[i % 4] for i, b in enumerate(fr[off+4:]))
    try: out.append(d.decompress(pl + b'\x00\x00\xff\xff').decode('utf-8', 'replace'))
    except Exception as e: out.append('INFLATE ERROR: %s' % e)
print('peer decodes in wire order:', [o[:40] for o in out]); print('expected multiset ok:', sorted(out) == sorted([m1, m2]))
