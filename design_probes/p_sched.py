"""Probe: deterministic line-level scheduler over real threads; replay C12 race on pristine lomond."""
import sys, threading
from lomond import WebSocket, errors
from lomond.session import WebsocketSession

class Sock:
    def __init__(self): self.sent=[]
    def sendall(self,d): self.sent.append(bytes(d))
    def shutdown(self,*a): pass
    def close(self): pass

class Sched:
    def __init__(self, plan):
        self.plan = plan          # list of (thread_name, predicate(frame)->bool meaning "pause before this line")
        self.cv = threading.Condition()
        self.turn = None
        self.done = set()
    def tracer(self, name):
        def local(frame, event, arg):
            if event == 'line' and '/lomond/' in frame.f_code.co_filename:
                self.point(name, frame)
            return local
        def glob(frame, event, arg):
            return local if '/lomond/' in frame.f_code.co_filename else None
        return glob
    def point(self, name, frame):
        with self.cv:
            if self.plan and self.plan[0][0] == name and self.plan[0][1](frame):
                _, _, nxt = self.plan.pop(0)
                self.turn = nxt
                self.cv.notify_all()
            while self.turn != name:
                self.cv.wait()
    def run(self, bodies, first):
        self.turn = first
        ths = []
        for name, fn in bodies.items():
            def body(name=name, fn=fn):
                sys.settrace(self.tracer(name))
                with self.cv:
                    while self.turn != name: self.cv.wait()
                try: fn()
                finally:
                    sys.settrace(None)
                    with self.cv:
                        self.done.add(name)
                        others = [n for n in bodies if n not in self.done]
                        self.turn = others[0] if others else None
                        self.cv.notify_all()
            t = threading.Thread(target=body); ths.append(t); t.start()
        for t in ths: t.join(10)
        assert not any(t.is_alive() for t in ths), 'deadlock'

ws = WebSocket('ws://example.com/')
s = WebsocketSession(ws); ws.state.session = s; s._sock = Sock()
res = {}
def t1(): ws.close(1000, b'bye')
def t2():
    try: ws.send_text('late'); res['t2'] = 'written'
    except errors.WebSocketError as e: res['t2'] = repr(e)
# preempt T1 right before it executes `self.state.closing = True` in close()
plan = [('T1', lambda fr: fr.f_code.co_name == 'close' and 'closing = True' in open(fr.f_code.co_filename).read().splitlines()[fr.f_lineno-1], 'T2')]
Sched(plan).run({'T1': t1, 'T2': t2}, 'T1')
ops = [b[0] & 15 for b in s._sock.sent]
print('wire opcodes:', ops, 't2:', res, '=> data after Close' if ops == [8, 1] else '')
