import zlib, os, socket
from base64 import b64encode
from hashlib import sha1
from lomond import WebSocket, events, constants
from lomond.session import WebsocketSession
from lomond.frame import Frame

class Sock:
    def __init__(self, chunks): self.chunks=list(chunks); self.sent=[]; self.closed=False
    def sendall(self,d): self.sent.append(bytes(d))
    def recv_into(self,buf,n):
        if not self.chunks: return 0
        c=self.chunks.pop(0); buf[:len(c)]=c; return len(c)
    def shutdown(self,*a): pass
    def close(self): self.closed=True
    def settimeout(self,*a): pass
    def fileno(self): return 99
class Sel:
    closed=False
    def __init__(self,s): pass
    def wait(self,m,t): return True,m
    def close(self): Sel.closed=True

def mk(chunks_fn, **kw):
    ws = WebSocket('ws://example.com/', **kw)
    class S(WebsocketSession):
        _selector_cls = Sel
        def _connect(self):
            self.sock = Sock(chunks_fn(self.websocket)); return self.sock, None
    return ws, S

def hs(ws, extra=b'', accept=None):
    acc = accept or b64encode(sha1(ws.key+constants.WS_KEY).digest())
    return b'HTTP/1.1 101 X\r\nUpgrade: websocket\r\nSec-WebSocket-Accept: '+acc+b'\r\n'+extra+b'\r\n'

# C04: control frame > 125 bytes
ws,S = mk(lambda w:[hs(w)+b'\x89\x7e\x00\x7e'+b'A'*126])
print('C04 ping126:', [e.name for e in ws.connect(session_class=S, ping_rate=0)])
# C10: case-insensitive accept
def swapped(w):
    acc=b64encode(sha1(w.key+constants.WS_KEY).digest()); return [hs(w, accept=acc.swapcase())]
ws,S = mk(swapped)
print('C10 swapcase accept:', [e.name for e in ws.connect(session_class=S, ping_rate=0)][:4])
# C13: abandon at connected / poll
for stop in ('connected','ready','poll'):
    ws,S = mk(lambda w:[hs(w), b'\x81\x01A', b'\x81\x01B'])
    g = ws.connect(session_class=S, ping_rate=0, poll=0)
    for e in g:
        if e.name==stop: break
    g.close()
    print('C13 stop at',stop,'socket closed:', ws.session.sock.closed)
# C03: close with long reason
ws,S = mk(lambda w:[hs(w), b'\x81\x01A'])
for e in ws.connect(session_class=S, ping_rate=0):
    if e.name=='text':
        ws.close(1000, b'x'*200); break
print('C03 close frame bytes:', len(ws.session.sock.sent[-1]), ws.session.sock.sent[-1][:4])
# C05: fail-fast lost after interleaved ping
ws,S = mk(lambda w:[hs(w), b'\x01\x01A', b'\x89\x00', b'\x00\x01\xff', b'\x00\x01B'])
print('C05 interleaved:', [e.name for e in ws.connect(session_class=S, ping_rate=0)])
# C06: window bits 8
ws,S = mk(lambda w:[hs(w, b'Sec-WebSocket-Extensions: permessage-deflate; client_max_window_bits=8\r\n'), b'\x81\x01A'], compress=True)
msg = os.urandom(300); msg = msg + msg[:40]
for e in ws.connect(session_class=S, ping_rate=0):
    if e.name=='text':
        ws.send_binary(msg); break
fr = ws.session.sock.sent[-1]
# decode masked frame
ln = fr[1]&127; off=2
if ln==126: ln=int.from_bytes(fr[2:4],'big'); off=4
key=fr[off:off+4]; pl=bytes(b^key[i%4] for i,b in enumerate(fr[off+4:]))
try:
    d=zlib.decompressobj(-8); out=d.decompress(pl+b'\x00\x00\xff\xff'); print('C06 wbits8 ok', out==msg)
except Exception as ex: print('C06 wbits8 peer inflate error:', ex)
