"""Probe: full stack WebSocket.connect()/session.run() on symbolic stream under proxy engine + AST hook."""
import sys, time, z3, builtins
import sx_hook
from sx_hook import SX
import symex
from symex import *

_bytes = bytes
def sx_call(obj, name, *a, **k):
    if name == 'join' and isinstance(obj, _bytes):
        parts = list(a[0])
        if any(isinstance(p, SymBytes) for p in parts):
            out = []
            for i, p in enumerate(parts):
                if i: out.extend(obj)
                out.extend(list(p))
            return SymBytes(out)
        return obj.join(parts)
    return getattr(obj, name)(*a, **k)
SX.call = staticmethod(sx_call)
def sx_contains(c, item):
    if isinstance(item, SymInt) and isinstance(c, (set, frozenset)):
        vals = sorted(c); conds = []
        lo = None
        for v in vals + [None]:
            if lo is None: lo = prev = v; continue
            if v is not None and v == prev + 1: prev = v; continue
            conds.append(z3.And(z3.UGE(item.e, lo), z3.ULE(item.e, prev))); lo = prev = v
        return bool(SymBool(z3.Or(conds)))
    return item in c
SX.contains = staticmethod(sx_contains)

import lomond.parser, lomond.message, lomond.session, lomond.frame_parser, lomond.frame
from lomond import WebSocket, events, constants
from lomond.session import WebsocketSession
class SBytes(SymBytes):
    def decode(self, *a): return ('TEXT', tuple(self.items))
class _BM(type):
    def __instancecheck__(cls, x): return isinstance(x, _bytes) or (isinstance(x, SymBytes) and not isinstance(x, SymByteArray))
class sym_bytes(metaclass=_BM):
    def __new__(cls, x=b''):
        if isinstance(x, SymBytes): return SBytes(x.items)
        return _bytes(x)
import logging; logging.disable(logging.CRITICAL)
for m in (lomond.parser, lomond.message, lomond.frame):
    m.bytes = sym_bytes
lomond.parser._ReadUtf8.validate = lambda self, d: None     # probe only
lomond.frame_parser.FrameParser.unpack16 = staticmethod(lambda b: (((b[0] << 8) | b[1]),))
def _u64(b):
    v = 0
    for x in b: v = (v << 8) | x
    return (v,)
lomond.frame_parser.FrameParser.unpack64 = staticmethod(_u64)
lomond.message.Message._unpack16 = staticmethod(lambda b: (((b[0] << 8) | b[1]),))
lomond.session.memoryview = lambda x: x
class _V:
    def validate(self, b): return (True, True, 0, 0)
lomond.message.Utf8Validator = _V
class PBA(SymByteArray):
    def __init__(self, items=()): SymByteArray.__init__(self, list(items))
    def find(self, sep):
        assert all(isinstance(i, int) for i in self.items), 'symbolic find not in probe'
        return bytearray(self.items).find(sep)
    def __getitem__(self, k):
        r = SymByteArray.__getitem__(self, k)
        if isinstance(k, slice) and all(isinstance(i, int) for i in r.items):
            return bytearray(r.items)
        return r
lomond.parser.bytearray = PBA

N = int(sys.argv[1])
HS = (b'HTTP/1.1 101 X\r\nUpgrade: websocket\r\nSec-WebSocket-Accept: ')
class Sock:
    def __init__(self, chunks): self.chunks = chunks; self.sent = []; self.closed = False
    def sendall(self, d): self.sent.append(d)
    def recv_into(self, buf, n):
        if not self.chunks: return 0
        self.cur = self.chunks.pop(0); return len(self.cur)
    def shutdown(self, *a): pass
    def close(self): self.closed = True
    def settimeout(self, *a): pass
class Sel:
    def __init__(self, s): pass
    def wait(self, m, t): return True, m
    def close(self): pass
from base64 import b64encode
from hashlib import sha1
stats = {'events': 0, 'names': {}}
def make_inputs():
    vs = [z3.BitVec('b%d' % i, 8) for i in range(N)]
    return ([SymInt(z3.ZeroExt(W - 8, v), 255) for v in vs],), []
def run(items):
    ws = WebSocket('ws://example.com/')
    class S(WebsocketSession):
        _selector_cls = Sel
        def _connect(self):
            acc = b64encode(sha1(self.websocket.key + constants.WS_KEY).digest())
            self.sock = Sock([HS + acc + b'\r\n\r\n', SymBytes(items)]); return self.sock, None
        def _recv(self, count):
            n = self._sock.recv_into(None, count)
            return self._sock.cur if n else bytearray(b'')
    names = []
    for e in ws.connect(session_class=S, ping_rate=0, poll=1e9):
        names.append(e.name)
    stats['events'] += len(names)
    k = tuple(names[3:]); stats['names'][k] = stats['names'].get(k, 0) + 1
t = time.time()
paths, ctx = explore(run, make_inputs)
print('N', N, 'paths', paths, 'queries', ctx.queries, 'solver_s', round(ctx.t_solver, 2), 'wall', round(time.time() - t, 2), 'distinct event-name suffixes', len(stats['names']))
for k, v in sorted(stats['names'].items(), key=lambda kv: -kv[1])[:8]: print('  ', v, k)
