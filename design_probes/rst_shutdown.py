import socket, struct, threading, hashlib, base64, gc, sys
sys.path.insert(0, '/repo')
import lomond
calls = []
class S(socket.socket):
    def shutdown(self, how):
        try:
            r = super().shutdown(how); calls.append(('shutdown', 'ok')); return r
        except OSError as e:
            calls.append(('shutdown', repr(e))); raise
    def close(self):
        calls.append(('close',)); return super().close()
socket.socket = S
srv = socket.socket.__mro__[1](socket.AF_INET, socket.SOCK_STREAM)
srv.setsockopt(socket.SOL_SOCKET, socket.SO_REUSEADDR, 1)
srv.bind(('127.0.0.1', 0)); srv.listen(1)
port = srv.getsockname()[1]
def serve():
    c, _ = srv.accept()
    req = b''
    while b'\r\n\r\n' not in req:
        req += c.recv(4096)
    key = [l.split(b':',1)[1].strip() for l in req.split(b'\r\n') if l.lower().startswith(b'sec-websocket-key')][0]
    acc = base64.b64encode(hashlib.sha1(key + b'258EAFA5-E914-47DA-95CA-C5AB0DC85B11').digest())
    c.sendall(b'HTTP/1.1 101 Switching Protocols\r\nUpgrade: websocket\r\nConnection: Upgrade\r\nSec-WebSocket-Accept: ' + acc + b'\r\n\r\n')
    c.sendall(b'\x81\x01a')
    import time; time.sleep(0.3)
    c.setsockopt(socket.SOL_SOCKET, socket.SO_LINGER, struct.pack('ii', 1, 0))
    c.close()
threading.Thread(target=serve, daemon=True).start()
ws = lomond.WebSocket('ws://127.0.0.1:%d/' % port)
socks = []
for ev in ws.connect(poll=1):
    print(ev)
    if ev.name == 'connected':
        socks.append(ws.state.session._sock)   # the application (or a debugger, a log handler...) holds a reference
print(calls)
print('fd still open behind the finished WebSocket:', [s.fileno() for s in socks])
