"""Probe: shadow-import lomond with AST instrumentation, pass-through shims."""
import ast, sys, os, importlib.abc, importlib.util, builtins

class SX:
    calls = 0
    @staticmethod
    def call(obj, name, *a, **k):
        SX.calls += 1
        return getattr(obj, name)(*a, **k)
    @staticmethod
    def contains(container, item):
        return item in container
    @staticmethod
    def getitem(c, i):
        return c[i]
builtins.sx__ = SX

class T(ast.NodeTransformer):
    def visit_Call(self, node):
        self.generic_visit(node)
        f = node.func
        if isinstance(f, ast.Attribute) and not any(isinstance(a, ast.Starred) for a in node.args) \
           and not (isinstance(f.value, ast.Call) and isinstance(f.value.func, ast.Name) and f.value.func.id == 'super'):
            new = ast.Call(
                func=ast.Attribute(value=ast.Name(id='sx__', ctx=ast.Load()), attr='call', ctx=ast.Load()),
                args=[f.value, ast.Constant(f.attr)] + node.args, keywords=node.keywords)
            return ast.copy_location(new, node)
        return node
    def visit_Compare(self, node):
        self.generic_visit(node)
        if len(node.ops) == 1 and isinstance(node.ops[0], (ast.In, ast.NotIn)):
            c = ast.Call(func=ast.Attribute(value=ast.Name(id='sx__', ctx=ast.Load()), attr='contains', ctx=ast.Load()),
                         args=[node.comparators[0], node.left], keywords=[])
            if isinstance(node.ops[0], ast.NotIn):
                c = ast.UnaryOp(op=ast.Not(), operand=c)
            return ast.copy_location(c, node)
        return node
    def visit_Subscript(self, node):
        self.generic_visit(node)
        if isinstance(node.ctx, ast.Load):
            c = ast.Call(func=ast.Attribute(value=ast.Name(id='sx__', ctx=ast.Load()), attr='getitem', ctx=ast.Load()),
                         args=[node.value, node.slice], keywords=[])
            return ast.copy_location(c, node)
        return node

ROOT = '/repo/lomond'
class Loader(importlib.abc.Loader):
    def __init__(self, path): self.path = path
    def create_module(self, spec): return None
    def exec_module(self, module):
        src = open(self.path).read()
        tree = T().visit(ast.parse(src, self.path))
        ast.fix_missing_locations(tree)
        exec(compile(tree, self.path, 'exec'), module.__dict__)
class Finder(importlib.abc.MetaPathFinder):
    def find_spec(self, name, path, target=None):
        if name == 'lomond' or name.startswith('lomond.'):
            rel = name.split('.')[1:]
            d = os.path.join(ROOT, *rel)
            if os.path.isdir(d):
                return importlib.util.spec_from_file_location(name, os.path.join(d, '__init__.py'), loader=Loader(os.path.join(d, '__init__.py')), submodule_search_locations=[d])
            f = d + '.py'
            if os.path.exists(f):
                return importlib.util.spec_from_file_location(name, f, loader=Loader(f))
        return None
sys.meta_path.insert(0, Finder())

def pytest_sessionfinish(session, exitstatus):
    print('\n[sx] instrumented method calls dispatched:', SX.calls)
