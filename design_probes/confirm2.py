import sys
sys.argv=['x']
exec(open('confirm.py').read().split('# C04')[0])
for mech in ('close','break'):
    ws,S = mk(lambda w:[hs(w), b'\x81\x01A', b'\x81\x01B'])
    g = ws.connect(session_class=S, ping_rate=0, poll=0)
    names=[]
    if mech=='close':
        for e in g:
            names.append(e.name)
            if names[-2:]==['text','poll'] or (e.name=='poll' and names.count('poll')==3): break
        # find a top-of-loop poll: poll that follows a poll
    # simpler: iterate manually, stop at a poll immediately following another poll (second is top-of-loop or after-event?) 
    ws,S = mk(lambda w:[hs(w), b'\x81\x01A', b'\x81\x01B'])
    g = ws.connect(session_class=S, ping_rate=0, poll=0); names=[]
    for e in g:
        names.append(e.name)
        if len(names)>=2 and names[-2:]==['poll','poll']: break
    if mech=='close': g.close()
    else: del g
    print(mech, names, 'socket closed:', ws.session is None or ws.session.sock.closed, 'selector closed:', Sel.closed)
    Sel.closed=False
