from typing import List
import lomond.utf8validator as U
U.UTF8VALIDATOR_DFA_S = tuple(U.UTF8VALIDATOR_DFA_S)
from lomond.utf8validator import Utf8Validator

def ref_valid(bs) -> bool:
    """RFC 3629 grammar, hand-written acceptor."""
    i = 0
    n = len(bs)
    while i < n:
        b = bs[i]
        if b <= 0x7f:
            i += 1; continue
        if 0xc2 <= b <= 0xdf:
            need = 1; lo, hi = 0x80, 0xbf
        elif b == 0xe0:
            need = 2; lo, hi = 0xa0, 0xbf
        elif 0xe1 <= b <= 0xec or 0xee <= b <= 0xef:
            need = 2; lo, hi = 0x80, 0xbf
        elif b == 0xed:
            need = 2; lo, hi = 0x80, 0x9f
        elif b == 0xf0:
            need = 3; lo, hi = 0x90, 0xbf
        elif 0xf1 <= b <= 0xf3:
            need = 3; lo, hi = 0x80, 0xbf
        elif b == 0xf4:
            need = 3; lo, hi = 0x80, 0x8f
        else:
            return False
        if i + need >= n:
            return False
        c = bs[i + 1]
        if not (lo <= c <= hi):
            return False
        for k in range(2, need + 1):
            c = bs[i + k]
            if not (0x80 <= c <= 0xbf):
                return False
        i += need + 1
    return True

def check(bs: bytes) -> bool:
    """
    pre: len(bs) <= 3
    post: _
    """
    v = Utf8Validator()
    valid, ends, _, _ = v.validate(bs)
    return (valid and ends) == ref_valid(bs)
