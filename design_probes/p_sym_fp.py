import sys, time, z3
import symex
from symex import *
from lomond.frame_parser import ClientFrameParser, FrameParser
from lomond import errors, parser as P
from lomond.parser import ParseError

# stubs (C boundary): struct unpack
FrameParser.unpack16 = staticmethod(lambda b: (((b[0] << 8) | b[1]),))
def _u64(b):
    v = 0
    for x in b:
        v = (v << 8) | x
    return (v,)
FrameParser.unpack64 = staticmethod(_u64)
P._ReadUtf8.validate = lambda self, data: None   # probe only

N = int(sys.argv[1])
results = {}
def make_inputs():
    vs = [z3.BitVec('b%d' % i, 8) for i in range(N)]
    data = SymBytes([SymInt(z3.ZeroExt(W - 8, v), 255) for v in vs])
    return (data, vs), []

count = {'frames': 0, 'err': 0}
def run(data, vs):
    p = ClientFrameParser(parse_headers=False)
    p._buffer = SymByteArray([])
    out = []
    try:
        for f in p.feed(data):
            out.append(f)
            count['frames'] += 1
    except (errors.ProtocolError, errors.CriticalProtocolError, ParseError) as e:
        count['err'] += 1

t = time.time()
paths, ctx = explore(run, make_inputs)
print('N', N, 'paths', paths, 'queries', ctx.queries, 'solver_s', round(ctx.t_solver, 2), 'wall', round(time.time() - t, 2), count)
