#!/bin/sh
# like tools_try_mutant.sh but leaves /repo untouched: the change is applied in a scratch worktree and the check is
# pointed at it with LOMOND_SRC (safe to use while other checks run against /repo)
P=$1; PROP=$2; TIER=${3:-quick}
WT=/tmp/mutwt_$$
git -C /repo worktree add -q --detach $WT HEAD || exit 9
git -C $WT apply "$P" 2>/dev/null || git -C $WT apply -3 "$P" || { git -C /repo worktree remove --force $WT; exit 9; }
cd /verif
[ -f evidence/$PROP.json ] && cp evidence/$PROP.json /tmp/evidence_$PROP.keep.$$
LOMOND_SRC=$WT/lomond timeout 3600 ./vcheck $PROP --tier $TIER; rc=$?
[ -f /tmp/evidence_$PROP.keep.$$ ] && mv /tmp/evidence_$PROP.keep.$$ evidence/$PROP.json
git -C /repo worktree remove --force $WT
echo "MUTANT $(basename $(dirname $P)) on $PROP/$TIER -> rc=$rc"
