#!/bin/sh
# usage: tools_try_mutant.sh <patch.diff> <prop> [tier]   -- apply a seeded change to /repo, run the check, undo.
# The evidence file of the property is saved and restored (evidence must describe the unchanged tree).
P=$1; PROP=$2; TIER=${3:-quick}
cd /verif
[ -f evidence/$PROP.json ] && cp evidence/$PROP.json /tmp/evidence_$PROP.keep
git -C /repo apply "$P" 2>/dev/null || git -C /repo apply -3 "$P" || exit 9; git -C /repo reset -q
timeout 3600 ./vcheck $PROP --tier $TIER; rc=$?
git -C /repo reset -q; git -C /repo checkout -- .
[ -f /tmp/evidence_$PROP.keep ] && mv /tmp/evidence_$PROP.keep evidence/$PROP.json
echo "MUTANT $(basename $(dirname $P)) on $PROP/$TIER -> rc=$rc"
