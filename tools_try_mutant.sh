#!/bin/sh
# usage: tools_try_mutant.sh <patch.diff> <prop> [tier]   -- apply a seeded change to /repo, run the check, undo
P=$1; PROP=$2; TIER=${3:-quick}
git -C /repo apply "$P" 2>/dev/null || git -C /repo apply -3 "$P" || exit 9; git -C /repo reset -q
cd /verif && timeout 3600 ./vcheck $PROP --tier $TIER; rc=$?
git -C /repo reset -q; git -C /repo checkout -- .
echo "MUTANT $(basename $(dirname $P)) on $PROP/$TIER -> rc=$rc"
