#!/bin/sh
# usage: tools_verify_mutant.sh <dir with patch.diff demo.py> <id> <property>
# confirms in a scratch worktree: suite unchanged with the patch; demo FAILs with it and PASSes without;
# then stores it under /verif/seeded/<id>/
D=$1; ID=$2; PROP=$3
WT=/tmp/mut/verify_$ID
rm -rf $WT; git -C /repo worktree prune; git -C /repo worktree add -q --detach $WT HEAD || exit 9
cd $WT
PATCH=$D/patch.diff
[ -f $D/patch_rebased.diff ] && PATCH=$D/patch_rebased.diff
/venv/bin/python $D/demo.py >/tmp/mut/verify_$ID.pristine.log 2>&1; rc0=$?
git apply $PATCH || { echo "patch does not apply"; cd /; git -C /repo worktree remove --force $WT; exit 9; }
for try in 1 2 3 4; do
  /venv/bin/python -m pytest -q -p no:cacheprovider --timeout=900 2>&1 | tail -1 > /tmp/mut/verify_$ID.suite.log
  grep -q "8 failed, 162 passed" /tmp/mut/verify_$ID.suite.log && break   # (tests/test_integration.py uses a fixed port: retry on contention)
  sleep 3
done
/venv/bin/python $D/demo.py >/tmp/mut/verify_$ID.mutated.log 2>&1; rc1=$?
SUITE=$(cat /tmp/mut/verify_$ID.suite.log)
cd /; git -C /repo worktree remove --force $WT
echo "$ID: demo pristine rc=$rc0, demo mutated rc=$rc1, suite: $SUITE"
case "$SUITE" in *"8 failed, 162 passed"*) ok=1;; *) ok=0;; esac
if [ $rc0 = 0 ] && [ $rc1 = 1 ] && [ $ok = 1 ]; then
  mkdir -p /verif/seeded/$ID
  cp $PATCH /verif/seeded/$ID/patch.diff; cp $D/demo.py /verif/seeded/$ID/demo.py
  [ -f $D/notes.md ] && cp $D/notes.md /verif/seeded/$ID/notes.md
  echo CONFIRMED
else
  echo NOT-CONFIRMED
fi
