#!/usr/bin/env python3
"""regenerate MANIFEST.json from the table below (claimed checks + not_applicable)"""
import json

TECH = 'symbolic execution of the real (AST-instrumented) lomond modules; every branch and every oracle obligation decided by z3 (QF_BV), counterexamples replayed on pristine code'
NOTE = ('trusted: z3, the symlomond shims/models (pure-Python models of bytes/str/struct/base64 differential-tested against '
        'CPython by selftest; environment stubs for socket/ssl/select/time/urandom), CPython itself. Bounded: holds for every input '
        'inside the stated bounds (evidence file lists them); nothing is claimed outside.')

CLAIMED = {
 'C01': ('model_checking', '3 (C01), 2',
         'Every feasible path of WebSocket.connect()->session.run()->feed->stream->parser->Message.build over N symbolic stream bytes '
         '(all opcodes, FIN/RSV patterns, length forms, fragmentations and control-frame placements that fit) is enumerated with z3 deciding '
         'each branch; per path the event list/payload terms are proved equal to an independent RFC 6455 receiver model run on the same symbolic bytes, '
         'incl. the aliasing clause (receive buffer scribbled before payloads are compared); plus fragmentation templates, a boundary grid of payload lengths in every length form, '
         'and an INDUCTIVE STEP on the payload-read state with a symbolic announced length (every length at once). Bounded model checking of the real code: right level because the '
         'property is universal over inputs and the interesting inputs (fragment + interleaved control + boundary lengths) are rare.'),
 'C04': ('model_checking', '3 (C04)',
         'Same exploration without conformance filter: an RFC 6455 validity classifier on the symbolic stream names the first violating frame; '
         'obligations: earlier messages delivered, exactly one ProtocolError once the violating frame is complete, nothing of it delivered, '
         'non-graceful Disconnected, at most one Close written afterwards. Includes all 65536 two-byte headers as symbolic obligations, all 2^16/2^64 extended lengths, all close codes, '
         'and the same sweeps in the closing state (application close() at Ready).'),
 'C05': ('model_checking', '3 (C05)',
         'Layer 1 (closed, unbounded in input length): product construction of the real Utf8Validator (one symbolic byte per step, DFA table ITE-encoded from the '
         'imported module) with the RFC 3629 ABNF automaton; bisimulation closure + chunk-independence obligations, all unsat. Layer 2 (bounded): text/close '
         'pipeline with symbolic payloads in every fragmentation, byte-at-a-time, incl. fail-fast timing.'),
 'C14': ('model_checking', '3 (C14)',
         'Receive sweep with auto_pong symbolic on/off and symbolic write faults: k-th Pong payload term == k-th Ping payload term, written before the Ping event '
         'is handed to the application, none with auto_pong off, failed Pong writes leave the event stream undisturbed; plus (deterministic scheduler, schedule = solver variables) the real '
         'event loop receiving a Ping while another thread is anywhere inside send_text (also holding the write lock in the middle of its sendall): exactly one matching Pong.'),
 'C02': ('model_checking', '3 (C02)',
         'Metamorphic inside one path: the same symbolic server stream (handshake reply ++ symbolic frame bytes / fragmentation templates / a 16 KiB burst) is run on two '
         'fresh WebSocket objects, once in one read and once cut at solver-chosen positions (all cut sets, byte-at-a-time, cuts inside the HTTP reply, reply joined with '
         'the first frames); events, payload terms, written bytes and write/event interleaving are proved equal.'),
 'C03': ('model_checking', '3 (C03)',
         'One API call on a directly constructed connected WebSocket with symbolic payload bytes / code points (all planes) / close code+reason and a symbolic masking key; '
         'the bytes passed to sendall (concatenated, should the library hand one frame to the socket in several pieces) are decoded by an independent RFC 6455 5.2 decoder: one frame, FIN, RSV clear, masked, minimal length form, control <= 125, unmask == caller '
         'payload; rejected calls raise TypeError/ValueError and write nothing. XOR-table lemma discharged per row from the real _XOR_TABLE. '
         'Plus: the same calls with a payload whose LENGTH is a solver variable (abstract content block; 0 <= L < 2^63 through Frame.build, <= 2^17 through the API): header '
         'announces exactly L in the shortest form and every residue class of the block is XORed with the right key byte, for every length at once. Plus (deterministic scheduler, '
         'schedule = solver variables): a 70 000-byte message against another thread\'s Pong / send - the wire must still decode as whole frames.'),
 'C07': ('model_checking', '3 (C07)',
         'Handshake variant x raw symbolic frame bytes x transport end x symbolic faults x application reactions at solver-chosen events; a monitor automaton over event names '
         '(independent of lomond) plus a bounded-step termination obligation (livelock => violation, not a hang).'),
 'C08': ('model_checking', '3 (C08)',
         'Server frame sequences from a small grammar with symbolic codes/reasons/payloads x application close()/send_* at solver-chosen events (incl. before Ready, during Closing) '
         'x a symbolic write fault; close-handshake monitor over the ordered wire/event/call log: <=1 Close, no data after it, right code/reason, sends refused after close, '
         'delivery continues, Closed/Closing + graceful Disconnected + socket closed.'),
 'C09': ('model_checking', '3 (C09)',
         'Symbolic fault (socket error / arbitrary exception) at every socket call occurrence, EOF/error after every byte offset (offset is a solver variable), all addresses refused, '
         'pairs of faults in thorough: no exception escapes, terminal event right, graceful=False without a closing handshake, socket released, sends raise only WebSocketError; plus '
         '(deterministic scheduler) the transport failing under the real event loop while another thread is inside sendall holding the write lock.'),
 'C13': ('model_checking', '3 (C13)',
         'Four real consumer shapes (break / raise / generator.close() / with-block) abandoning at a solver-chosen event of grammar-generated scenarios (poll=0 so top-of-loop Polls occur), '
         'optionally after close(): socket.close() and selector.close() must have been called.'),
 'C10': ('model_checking', '3 (C10)',
         'Request: os.urandom(16) is 16 symbolic bytes; build_request() parsed by an independent reader, key header base64-DEcoded by a reference decoder must equal the drawn bytes '
         '(all 2^128 keys), per-attempt freshness over 3 connects. Reply: structural templates x symbolic holes (3 status bytes, Upgrade value, 28-byte Accept value, header-name case); '
         'Ready <=> 101 and websocket and accept == b64(D(key)) exactly, sha1 uninterpreted; 16 KiB header bound with a symbolic length window and cut; and one of the three '
         'decisive tokens as an over-long hole of arbitrary bytes >= 0x21 (all non-ASCII bytes, i.e. Unicode digits / case-folding look-alikes / Unicode white space in UTF-8): never Ready.'),
 'C17': ('model_checking', '3 (C17)',
         'Two connects on one object inside one path (symbolic bytes + solver-chosen abnormal ending, then valid handshake + symbolic bytes) compared against a fresh object fed the '
         'same symbolic bytes: identical branching, events, payload terms, decoded frames; public state at Connecting is initial; new key; wall-clock leftovers: threading.Timer runs on the virtual clock and '
         'connection 2 sits through a quiet period longer than every timeout of connection 1.'),
 'C19': ('model_checking', '3 (C19)',
         'Proxy answer = HTTP/1.1 + 3 symbolic status bytes + solver-chosen tail/segmentation/fault over a grid of proxy URL shapes; ordered I/O-log oracle: CONNECT names exactly '
         'host:port, nothing else written before the complete answer, only status 200 starts the handshake (TLS wrap iff wss, Connected.proxy), otherwise exactly Connecting, ConnectFail.'),
 'C15': ('model_checking', '3 (C15)',
         'The real run()/_regular/_check_*/_on_ready/_on_pong/close run with time.time() a symbolic non-decreasing Real that advances only in the selector wait by a symbolic '
         '0<=dt<=poll; poll/ping_timeout/close_timeout symbolic reals, ping_rate on a grid; per iteration a solver-chosen server action, application close() at a solver-chosen event; '
         'obligations over virtual timestamps: Poll cadence p<=gap<2p, ping grid (timely, never twice per period, none for r=0 or while closing), Unresponsive iff >t at the first '
         'housekeeping instant, forced disconnect in [c, c+p], never for c None/0. Plus an INDUCTIVE STEP: one pass of the real _regular() from an arbitrary timer state constrained only by '
         'the invariant every pass re-establishes (ping_rate on a grid and as a symbolic real), with the base case at Ready - so the bounded-K conclusions extend to sessions of any length.'),
 'C16': ('model_checking', '3 (C16)',
         'Real persist() over a real WebSocket: 7 attempt outcomes chosen by solver variables, random() a symbolic Real in [0,1), min_wait<=max_wait symbolic reals, exit_event.wait '
         'symbolic; obligations: one BackOff per attempt, delay == wait argument, bounds, delay == min_wait + u*min(max_wait-min_wait, 2^k) exactly (so too small a window is also sat), '
         'identity pass-through, connect() kwargs, ends iff wait returned True.'),
 'C18': ('model_checking', '3 (C18), 6',
         'REDUCED SCOPE (inductive step): real SelectorBase.wait / PollSelector.wait_readable / run() loop body / _recv against an abstract transport with two symbolic counters '
         '(kernel bytes k, TLS-decrypted bytes q) and a symbolic record size: an iteration blocks only when k=q=0, otherwise consumes >=1 byte in zero virtual time, count in range, '
         'no byte lost; induction on iterations gives draining of any burst. The premise (bytes handed to feed are delivered in the same cycle, Pongs written) is checked on the REAL pipeline at '
         'every read boundary for bounded streams. Kernel selectors, real ssl buffering and loopback runs are outside (not encodable).'),
 'C06': ('model_checking', '3 (C06), 6',
         'REDUCED SCOPE: DEFLATE itself is not encoded (zlib C code; its losslessness is trusted). zlib is replaced by an executable abstract streaming codec whose output carries explicit '
         '(deflater generation, message sequence, window bits) tags; a reference RFC 7692 peer applies the NEGOTIATED parameters (symbolic window digits, spellings, both takeover flags '
         'as solver variables) over histories of sends/receives with solver-chosen fragmentation: invalid parameters => Rejected; peer inflater restores every client message in wire order; '
         'client delivers every peer message; damaged stream => ProtocolError, never wrong content; RSV1 only when negotiated and requested. Replay uses the real zlib on both sides.'),
 'C11': ('model_checking', '3 (C11), 6',
         'Real threads running the real send_text/send_binary/send_ping/_send_pong/_check_auto_ping on one connected WebSocket under a deterministic baton scheduler: preemption points '
         'are statement starts in lomond files (sys.settrace) plus the middle of a two-step sendall, the session lock is scheduler-aware, and WHICH THREAD RUNS at each point is a solver '
         'variable named after the program location; all schedules with <= PB preemptions are enumerated by the path explorer, payloads symbolic. Oracle: wire decodes as whole frames, '
         'exactly the messages sent, per-thread order, and (abstract zlib, context takeover) the reference peer inflates in wire order. Bounded by PB and line granularity.'),
 'C12': ('model_checking', '3 (C12), 6',
         'Same scheduler harness with threads running close(), a second close(), send_*, the loop-side server-Close echo (_on_close), _send_pong and _check_auto_ping: <=1 Close frame, no data '
         'frame after it, every call returns or raises a WebSocketError subclass, a send that raised wrote nothing. Violations are keyed by what the late writer saw when it took the '
         'write lock (closing flag / Close already on the wire / which close path was in progress), so that distinct races have distinct signatures; also with permessage-deflate '
         'negotiated (compressed send path). The two races this check found in close()/_on_close have been repaired in /repo; no finding is open.'),
}

REPLAY = './vcheck {prop} --replay {{path}}'


def main():
    props = [json.loads(l) for l in open('properties.jsonl')]
    checks = []
    na = []
    for p in props:
        pid = p['id']
        if pid in CLAIMED:
            level, ref, text = CLAIMED[pid]
            checks.append(dict(
                property_id=pid,
                quick_cmd='./vcheck %s --tier quick' % pid,
                thorough_cmd='./vcheck %s --tier thorough' % pid,
                evidence_file='evidence/%s.json' % pid,
                replay_cmd_template='./vcheck %s --replay {path}' % pid,
                engine='symlomond',
                level_claimed=dict(category=level, text=text, design_ref='DESIGN.md section ' + ref),
                level_note=NOTE,
                technique=TECH))
        else:
            na.append(dict(property_id=pid, reason=NA.get(pid, 'check not built yet (build round in progress); see DESIGN.md section 3')))
    m = dict(
        version=1,
        setup_cmd='./setup.sh',
        hooks=dict(guard='WILDFOUNDRY_DATAPLICITY_LOMOND_VERIF',
                   enable='none needed: instrumentation is applied to a shadow copy of /repo/lomond at import time inside each check process (no hook commits in /repo)',
                   baseline_off_cmd='cd /repo && /venv/bin/python -m pytest -ra -q -p no:cacheprovider --timeout=900 --continue-on-collection-errors',
                   source_commits=[], add_only=True),
        engines=[dict(name='symlomond', path='symlomond/', serves_properties=sorted(CLAIMED),
                      kind_free_text='purpose-built symbolic executor: AST-instrumented shadow import of /repo/lomond (regenerated from the working tree on every run), '
                                     'z3-backed proxies for ints/bytes/str/reals, DFS path explorer sharded over 16 cores, independent RFC reference models, '
                                     'counterexample replay on pristine code')],
        checks=checks,
        notes='exit 0 = all paths in bound explored & all obligations unsat; exit 1 = VIOLATION (replayed on pristine code); exit 3 = inconclusive/harness error. '
              'known_findings.json lists genuine defects (open -> KNOWN-FINDING line; fixed -> suppresses nothing). seeded/ holds independently produced breaking changes.',
        not_applicable=na)
    json.dump(m, open('MANIFEST.json', 'w'), indent=1)
    print('claimed', len(checks), 'na', len(na))


NA = {}

if __name__ == '__main__':
    main()
